"""Helpers shared by the rule modules."""

from __future__ import annotations

import ast
import copy
import re
from typing import Any, Callable, Dict, Iterable, Iterator, List, Optional, Sequence, Set, Tuple

from sa.cfg import CFG, Node
from sa.model import AnalysisError, CallSite, ClassInfo, FuncInfo, Program, dotted, norm, walk_local

# --------------------------------------------------------------------------------------
# Markdown tables (docs are data for the table-agreement rules)
# --------------------------------------------------------------------------------------


def md_tables(text: str) -> List[Dict[str, Any]]:
    """All pipe tables of a Markdown text: {heading, header: [...], rows: [[...]], line}."""
    tables: List[Dict[str, Any]] = []
    heading = ""
    lines = text.split("\n")
    index = 0
    in_fence = False
    while index < len(lines):
        line = lines[index]
        if line.lstrip().startswith("```"):
            in_fence = not in_fence
            index += 1
            continue
        if in_fence:
            index += 1
            continue
        if line.startswith("#"):
            heading = line.lstrip("#").strip()
        if line.lstrip().startswith("|") and index + 1 < len(lines) and re.match(r"^\s*\|?\s*:?-{2,}", lines[index + 1]):
            header = _split_row(line)
            rows: List[List[str]] = []
            cursor = index + 2
            while cursor < len(lines) and lines[cursor].lstrip().startswith("|"):
                rows.append(_split_row(lines[cursor]))
                cursor += 1
            tables.append({"heading": heading, "header": header, "rows": rows, "line": index + 1})
            index = cursor
            continue
        index += 1
    return tables


def _split_row(line: str) -> List[str]:
    line = line.strip()
    if line.startswith("|"):
        line = line[1:]
    if line.endswith("|") and not line.endswith("\\|"):
        line = line[:-1]
    cells = re.split(r"(?<!\\)\|", line)
    return [cell.strip() for cell in cells]


def strip_code(cell: str) -> str:
    cell = cell.strip()
    if cell.startswith("`") and cell.endswith("`") and len(cell) >= 2:
        return cell[1:-1]
    return cell


# --------------------------------------------------------------------------------------
# ast helpers
# --------------------------------------------------------------------------------------


def calls_in(node: ast.AST) -> List[ast.Call]:
    return [n for n in walk_local(node, include_root=True) if isinstance(n, ast.Call)]


def site_for(prog: Program, func: FuncInfo, call: ast.Call) -> Optional[CallSite]:
    for site in prog.sites_in(func):
        if site.node is call:
            return site
    return None


def stmt_of(func: FuncInfo, target: ast.AST) -> Optional[ast.stmt]:
    """Innermost statement of ``func`` containing ``target``."""
    best: Optional[ast.stmt] = None
    for node in walk_local(func.node):
        if isinstance(node, ast.stmt) and node is not func.node:
            for sub in ast.walk(node):
                if sub is target:
                    if best is None or _contains(best, node):
                        best = node
                    break
    return best


def _contains(outer: ast.AST, inner: ast.AST) -> bool:
    return any(sub is inner for sub in ast.walk(outer))


def parent_map(root: ast.AST) -> Dict[int, ast.AST]:
    parents: Dict[int, ast.AST] = {}
    for node in ast.walk(root):
        for child in ast.iter_child_nodes(node):
            parents[id(child)] = node
    return parents


def enclosing(parents: Dict[int, ast.AST], node: ast.AST, kinds: Tuple[type, ...]) -> List[ast.AST]:
    out: List[ast.AST] = []
    cur = parents.get(id(node))
    while cur is not None:
        if isinstance(cur, kinds):
            out.append(cur)
        cur = parents.get(id(cur))
    return out


def in_body_of(parents: Dict[int, ast.AST], node: ast.AST, compound: ast.AST, attr: str) -> bool:
    """Is ``node`` (transitively) inside ``compound.<attr>`` (e.g. try.body)?"""
    block = getattr(compound, attr, [])
    for stmt in block:
        if stmt is node or _contains(stmt, node):
            return True
    return False


def names_read(node: ast.AST) -> Set[str]:
    """Dotted names (``a``, ``a.b``, ``self.__x``) loaded in an expression."""
    out: Set[str] = set()
    for sub in ast.walk(node):
        if isinstance(sub, (ast.Name, ast.Attribute)):
            text = dotted(sub)
            if text and isinstance(getattr(sub, "ctx", None), ast.Load):
                out.add(text)
    return out


def assigned_names(stmt: ast.AST) -> Set[str]:
    out: Set[str] = set()
    targets: List[ast.AST] = []
    if isinstance(stmt, ast.Assign):
        targets = list(stmt.targets)
    elif isinstance(stmt, (ast.AnnAssign, ast.AugAssign)):
        targets = [stmt.target]
    elif isinstance(stmt, (ast.For, ast.AsyncFor)):
        targets = [stmt.target]
    elif isinstance(stmt, ast.NamedExpr):
        targets = [stmt.target]
    elif isinstance(stmt, (ast.With, ast.AsyncWith)):
        targets = [item.optional_vars for item in stmt.items if item.optional_vars is not None]
    for target in targets:
        for sub in ast.walk(target):
            if isinstance(sub, (ast.Name, ast.Attribute)) and isinstance(getattr(sub, "ctx", None), ast.Store):
                text = dotted(sub)
                if text:
                    out.add(text)
    for sub in ast.walk(stmt):
        if isinstance(sub, ast.NamedExpr) and isinstance(sub.target, ast.Name):
            out.add(sub.target.id)
    return out


def enum_member(node: ast.AST, enum_name: str) -> Optional[str]:
    """``ApplicationResult.X`` -> 'X'."""
    if isinstance(node, ast.Attribute) and isinstance(node.value, ast.Name) and node.value.id == enum_name:
        return node.attr
    return None


# --------------------------------------------------------------------------------------
# path enumeration over a CFG
# --------------------------------------------------------------------------------------


class PathBudgetExceeded(Exception):
    pass


def enumerate_paths(cfg: CFG, start: Optional[int] = None, loop_bound: int = 2, budget: int = 20000,
                    stop: Optional[Callable[[int], bool]] = None) -> Iterator[List[Tuple[int, str]]]:
    """All paths from ``start`` (default entry) to EXIT/RAISE; every node is visited at most
    ``loop_bound`` times per path.  A path is a list of (node id, label of the edge leaving it)."""
    start = cfg.entry if start is None else start
    count = 0
    stack: List[Tuple[int, List[Tuple[int, str]], Dict[int, int]]] = [(start, [], {})]
    while stack:
        nid, path, visits = stack.pop()
        if nid in (cfg.exit, cfg.raise_exit) or (stop is not None and stop(nid) and path):
            count += 1
            if count > budget:
                raise PathBudgetExceeded()
            yield path + [(nid, "end")]
            continue
        seen = visits.get(nid, 0)
        if seen >= loop_bound:
            continue
        new_visits = dict(visits)
        new_visits[nid] = seen + 1
        successors = cfg.succ[nid]
        if not successors:
            continue
        for dst, label in reversed(successors):
            stack.append((dst, path + [(nid, label)], new_visits))


def all_paths_pass(cfg: CFG, start: int, targets: Set[int], ends: Optional[Set[int]] = None,
                   labels: Optional[Set[str]] = None) -> Optional[List[int]]:
    """Must-pass-through: returns None when every path from ``start`` to ``ends`` (default EXIT and
    RAISE) passes a node of ``targets``; otherwise a witness path (node ids) that avoids them."""
    ends = ends if ends is not None else {cfg.exit, cfg.raise_exit}
    parent = cfg.reachable_from([start], blocked=targets, labels=labels)
    best: Optional[List[int]] = None
    for end in sorted(ends):
        if end in parent and end != start:
            path = cfg.path_to(parent, end)
            if best is None or len(path) < len(best):
                best = path
    return best


def describe_path(cfg: CFG, path: Sequence[int], limit: int = 14) -> List[str]:
    texts = [cfg.describe(nid) for nid in path]
    if len(texts) > limit:
        texts = texts[: limit // 2] + ["..."] + texts[-limit // 2 :]
    return texts


# --------------------------------------------------------------------------------------
# reaching constant definitions (small, flow-insensitive per function + returns)
# --------------------------------------------------------------------------------------


def reaching_values(prog: Program, func: FuncInfo, expr: ast.AST, depth: int = 0) -> List[ast.AST]:
    """Expressions that may define the value of ``expr`` in ``func``: follows local
    assignments (flow-insensitively), conditional expressions and calls to repo functions
    (their return expressions).  Leaves are returned as-is."""
    if depth > 14:
        return [expr]
    if isinstance(expr, ast.IfExp):
        return reaching_values(prog, func, expr.body, depth + 1) + reaching_values(prog, func, expr.orelse, depth + 1)
    if isinstance(expr, ast.Name):
        defs: List[ast.AST] = []
        for node in walk_local(func.node):
            if isinstance(node, ast.Assign):
                for target in node.targets:
                    for tgt, value, _ in Program._unpack(target, node.value):
                        if isinstance(tgt, ast.Name) and tgt.id == expr.id and value is not None:
                            defs.append(value)
            elif isinstance(node, ast.AnnAssign) and isinstance(node.target, ast.Name) and node.target.id == expr.id and node.value:
                defs.append(node.value)
        if not defs:
            return [expr]
        out: List[ast.AST] = []
        for value in defs:
            out.extend(reaching_values(prog, func, value, depth + 1))
        return out
    if isinstance(expr, ast.Subscript) and isinstance(expr.slice, ast.Constant) and isinstance(expr.value, ast.Call):
        # element of a tuple returned by a call
        index = expr.slice.value
        site = site_for(prog, func, expr.value)
        if site and site.targets and not site.dynamic:
            out = []
            for target in site.targets:
                for ret in returns_of(target):
                    if isinstance(ret, ast.Tuple) and isinstance(index, int) and index < len(ret.elts):
                        out.extend(reaching_values(prog, target, ret.elts[index], depth + 1))
                    elif isinstance(ret, (ast.Call, ast.Name)):
                        sub = ast.Subscript(value=ret, slice=ast.Constant(value=index), ctx=ast.Load())
                        ast.copy_location(sub, ret)
                        if isinstance(ret, ast.Name):
                            for value in reaching_values(prog, target, ret, depth + 1):
                                if isinstance(value, ast.Tuple) and isinstance(index, int) and index < len(value.elts):
                                    out.extend(reaching_values(prog, target, value.elts[index], depth + 1))
                                else:
                                    out.append(value)
                        else:
                            out.extend(reaching_values(prog, target, sub, depth + 1))
                    else:
                        out.append(ret)
            return out or [expr]
        return [expr]
    if isinstance(expr, ast.Call):
        site = site_for(prog, func, expr)
        if site and site.targets and not site.dynamic and all(t.name != "__init__" for t in site.targets):
            out = []
            for target in site.targets:
                rets = returns_of(target)
                if not rets:
                    out.append(expr)
                for ret in rets:
                    out.extend(reaching_values(prog, target, ret, depth + 1))
            return out or [expr]
    return [expr]


def returns_of(func: FuncInfo) -> List[ast.AST]:
    return [n.value for n in walk_local(func.node) if isinstance(n, ast.Return) and n.value is not None]


def func_key(func: FuncInfo, node: Optional[ast.AST] = None) -> str:
    return f"{func.short}: {norm(node)}" if node is not None else func.short


def where(func: FuncInfo, node: Optional[ast.AST] = None) -> str:
    line = getattr(node, "lineno", None) if node is not None else None
    return f"{func.rel}:{line if line is not None else func.lineno}"


def require(condition: bool, message: str) -> None:
    if not condition:
        raise AnalysisError(message)


# --------------------------------------------------------------------------------------
# guard facts (syntactic control dependence, incl. early-exit idiom)
# --------------------------------------------------------------------------------------


def _atoms(test: ast.AST, polarity: bool) -> List[Tuple[ast.AST, bool]]:
    """Atomic facts implied by ``test`` evaluating to ``polarity``."""
    if isinstance(test, ast.UnaryOp) and isinstance(test.op, ast.Not):
        return _atoms(test.operand, not polarity)
    if isinstance(test, ast.BoolOp):
        if isinstance(test.op, ast.And) and polarity:
            return [fact for value in test.values for fact in _atoms(value, True)]
        if isinstance(test.op, ast.Or) and not polarity:
            return [fact for value in test.values for fact in _atoms(value, False)]
        return [(test, polarity)]
    if isinstance(test, ast.NamedExpr):
        return [(test, polarity), (test.target, polarity)]
    return [(test, polarity)]


def _always_leaves(block: Sequence[ast.stmt]) -> bool:
    if not block:
        return False
    last = block[-1]
    if isinstance(last, (ast.Return, ast.Raise, ast.Continue, ast.Break)):
        return True
    if isinstance(last, ast.If) and last.orelse:
        return _always_leaves(last.body) and _always_leaves(last.orelse)
    return False


def guards_of(func_node: ast.AST, target: ast.AST, include_asserts: bool = True) -> List[Tuple[ast.AST, bool]]:
    """Atomic (test, polarity) facts that hold whenever ``target`` executes, derived from
    enclosing ``if``/``while``/conditional expressions/``and``-``or`` operands and from
    preceding early exits (``if c: return`` gives ``not c`` afterwards) in enclosing blocks.
    Facts about names reassigned between the test and the target are NOT filtered here."""
    facts: List[Tuple[ast.AST, bool]] = []

    def visit_block(block: Sequence[ast.stmt]) -> bool:
        for index, stmt in enumerate(block):
            if stmt is target or _contains(stmt, target):
                for prev in block[:index]:
                    if isinstance(prev, ast.If) and not prev.orelse and _always_leaves(prev.body):
                        facts.extend(_atoms(prev.test, False))
                    elif isinstance(prev, ast.If) and prev.orelse and _always_leaves(prev.orelse) and not _always_leaves(prev.body):
                        facts.extend(_atoms(prev.test, True))
                    elif isinstance(prev, ast.Assert) and include_asserts:
                        facts.extend(_atoms(prev.test, True))
                visit_stmt(stmt)
                return True
        return False

    def visit_expr(expr: ast.AST) -> None:
        if expr is target:
            return
        if isinstance(expr, ast.IfExp):
            if _contains(expr.body, target) or expr.body is target:
                facts.extend(_atoms(expr.test, True))
                visit_expr(expr.body)
                return
            if _contains(expr.orelse, target) or expr.orelse is target:
                facts.extend(_atoms(expr.test, False))
                visit_expr(expr.orelse)
                return
        if isinstance(expr, ast.BoolOp):
            for index, value in enumerate(expr.values):
                if value is target or _contains(value, target):
                    for prev in expr.values[:index]:
                        facts.extend(_atoms(prev, isinstance(expr.op, ast.And)))
                    visit_expr(value)
                    return
        for child in ast.iter_child_nodes(expr):
            if child is target or _contains(child, target):
                visit_expr(child)
                return

    def visit_stmt(stmt: ast.stmt) -> None:
        if stmt is target:
            return
        if isinstance(stmt, ast.If):
            if in_block(stmt.body):
                facts.extend(_atoms(stmt.test, True))
                visit_block(stmt.body)
                return
            if in_block(stmt.orelse):
                facts.extend(_atoms(stmt.test, False))
                visit_block(stmt.orelse)
                return
            visit_expr(stmt.test)
            return
        if isinstance(stmt, ast.While):
            if in_block(stmt.body):
                facts.extend(_atoms(stmt.test, True))
                visit_block(stmt.body)
                return
            if in_block(stmt.orelse):
                visit_block(stmt.orelse)
                return
            visit_expr(stmt.test)
            return
        for attr in ("body", "orelse", "finalbody"):
            block = getattr(stmt, attr, None)
            if isinstance(block, list) and block and isinstance(block[0], ast.stmt) and in_block(block):
                visit_block(block)
                return
        for handler in getattr(stmt, "handlers", []) or []:
            if in_block(handler.body):
                visit_block(handler.body)
                return
        for child in ast.iter_child_nodes(stmt):
            if isinstance(child, ast.expr) and (child is target or _contains(child, target)):
                visit_expr(child)
                return
            if isinstance(child, (ast.withitem, ast.keyword, ast.comprehension)) and _contains(child, target):
                visit_expr(child)
                return

    def in_block(block: Sequence[ast.stmt]) -> bool:
        return any(stmt is target or _contains(stmt, target) for stmt in block)

    visit_block(getattr(func_node, "body", []))
    return facts


# --------------------------------------------------------------------------------------
# containment (calls lexically inside try bodies)
# --------------------------------------------------------------------------------------


def block_cfg(block: Sequence[ast.stmt], raising: Optional[Callable[[ast.AST], bool]] = None) -> CFG:
    holder = ast.FunctionDef(
        name="<block>", args=ast.arguments(posonlyargs=[], args=[], kwonlyargs=[], kw_defaults=[], defaults=[]),
        body=list(block), decorator_list=[], lineno=getattr(block[0], "lineno", 1) if block else 1, col_offset=0,
    )
    return CFG(holder, raising=raising or (lambda node: isinstance(node, ast.Raise)))


def handler_always_raises(handler: ast.ExceptHandler, class_names: Set[str]) -> Tuple[bool, str]:
    """Every path through the handler body ends in ``raise <one of class_names>(...)``
    (a bare ``raise`` is accepted when ``"*reraise"`` is in class_names)."""
    cfg = block_cfg(handler.body)
    reach = cfg.reachable_from([cfg.entry])
    if cfg.exit in reach:
        return False, "a path through the handler completes normally (exception swallowed)"
    for nid in reach:
        node = cfg.nodes[nid]
        if node.kind == "stmt" and isinstance(node.ast_node, ast.Raise):
            exc = node.ast_node.exc
            if exc is None:
                if "*reraise" not in class_names:
                    return False, "handler re-raises the original exception unconverted"
                continue
            name = (dotted(exc.func if isinstance(exc, ast.Call) else exc) or "").split(".")[-1]
            if isinstance(exc, ast.Name) and name not in class_names:
                # raise <local> where the local was built from an accepted class in this handler
                built = [
                    (dotted(n.value.func) or "").split(".")[-1]
                    for stmt in handler.body for n in ast.walk(stmt)
                    if isinstance(n, ast.Assign) and isinstance(n.value, ast.Call)
                    and any(isinstance(t, ast.Name) and t.id == exc.id for t in n.targets)
                ]
                if built and all(b in class_names for b in built):
                    continue
            if name not in class_names:
                return False, f"handler raises {name}"
    return True, ""


def enclosing_tries(func_node: ast.AST, target: ast.AST) -> List[Tuple[ast.Try, str]]:
    """Try statements around ``target`` innermost first, with the part holding it."""
    out: List[Tuple[ast.Try, str]] = []

    def visit(block: Sequence[ast.stmt], chain: List[Tuple[ast.Try, str]]) -> bool:
        for stmt in block:
            if not (stmt is target or _contains(stmt, target)):
                continue
            if isinstance(stmt, ast.Try):
                for part, sub in (("body", stmt.body), ("else", stmt.orelse), ("final", stmt.finalbody)):
                    if any(s is target or _contains(s, target) for s in sub):
                        return visit(sub, [(stmt, part)] + chain)
                for handler in stmt.handlers:
                    if any(s is target or _contains(s, target) for s in handler.body):
                        return visit(handler.body, [(stmt, "handler")] + chain)
                out.extend(chain)
                return True
            for attr in ("body", "orelse", "finalbody"):
                sub = getattr(stmt, attr, None)
                if isinstance(sub, list) and sub and isinstance(sub[0], ast.stmt):
                    if any(s is target or _contains(s, target) for s in sub):
                        return visit(sub, chain)
            out.extend(chain)
            return True
        return False

    visit(getattr(func_node, "body", []), [])
    return out


def catching_handler(func_node: ast.AST, target: ast.AST, catches: Callable[[ast.ExceptHandler], bool]) -> Optional[ast.ExceptHandler]:
    """Innermost handler (of a try whose *body* holds ``target``) accepted by ``catches``."""
    for try_node, part in enclosing_tries(func_node, target):
        if part != "body":
            continue
        for handler in try_node.handlers:
            if catches(handler):
                return handler
    return None


def is_catch_all(handler: ast.ExceptHandler) -> bool:
    if handler.type is None:
        return True
    names = list(handler.type.elts) if isinstance(handler.type, ast.Tuple) else [handler.type]
    return any((dotted(n) or "").split(".")[-1] in ("Exception", "BaseException") for n in names)


# --------------------------------------------------------------------------------------
# forward name taint (flow-insensitive inside a function, through arguments across calls)
# --------------------------------------------------------------------------------------


def forward_taint(prog: Program, seeds: Iterable[Tuple[FuncInfo, str]], any_expression: bool = True) -> Dict[str, Set[str]]:
    """function qualname -> tainted local/parameter names.  A local becomes tainted when it is
    assigned from an expression mentioning a tainted name (``any_expression``) or the bare name;
    a parameter becomes tainted when a tainted name (or expression) is passed for it."""
    tainted: Dict[str, Set[str]] = {}
    work: List[Tuple[FuncInfo, str]] = []
    for func, name in seeds:
        if name not in tainted.setdefault(func.qualname, set()):
            tainted[func.qualname].add(name)
            work.append((func, name))

    def mentions(expr: ast.AST, name: str) -> bool:
        """Does the *value* of expr carry the string held in ``name`` (the name itself, or text built
        from it by f-strings, concatenation, %-formatting, str()/os.path.* helpers)?"""
        if isinstance(expr, ast.Name):
            return expr.id == name
        if not any_expression:
            return False
        if isinstance(expr, ast.JoinedStr):
            return any(isinstance(v, ast.FormattedValue) and mentions(v.value, name) for v in expr.values)
        if isinstance(expr, ast.BinOp) and isinstance(expr.op, (ast.Add, ast.Mod)):
            return mentions(expr.left, name) or mentions(expr.right, name)
        if isinstance(expr, ast.IfExp):
            return mentions(expr.body, name) or mentions(expr.orelse, name)
        if isinstance(expr, ast.Tuple):
            return any(mentions(e, name) for e in expr.elts)
        if isinstance(expr, ast.Call):
            callee = dotted(expr.func) or ""
            if callee in ("str", "repr", "os.fspath") or callee.startswith("os.path.") or callee.endswith(".format"):
                return any(mentions(a, name) for a in expr.args) or (
                    isinstance(expr.func, ast.Attribute) and mentions(expr.func.value, name))
        return False

    while work:
        func, var = work.pop()
        for node in walk_local(func.node):
            if isinstance(node, ast.Assign):
                for target in node.targets:
                    for tgt, value, _ in Program._unpack(target, node.value):
                        if isinstance(tgt, ast.Name) and value is not None and mentions(value, var):
                            if tgt.id not in tainted[func.qualname]:
                                tainted[func.qualname].add(tgt.id)
                                work.append((func, tgt.id))
        for site in prog.sites_in(func):
            if site.wild or not site.targets:
                continue
            for target in site.targets:
                bound = Program.bind_args(target, site.node, skip_self=target.kind in ("instance", "class") or target.name == "__init__")
                for param, arg in bound.items():
                    if mentions(arg, var) and param not in tainted.setdefault(target.qualname, set()):
                        tainted[target.qualname].add(param)
                        work.append((target, param))
    return tainted


def single_valued_flags(func: FuncInfo) -> List[Tuple[ast.Name, object]]:
    """Branch conditions that test a local which can hold one constant only: every binding of the
    local in the function is the same constant (no parameter, loop target, unpacking, augmented
    assignment, ``with``/``except`` target or declaration rebinding it).  Such a branch is decided
    before the program runs: whatever the flag was meant to record is never recorded."""
    assigns: Dict[str, List[ast.AST]] = {}
    other: Set[str] = set(func.params)
    for sub in walk_local(func.node):
        if isinstance(sub, (ast.Assign, ast.AnnAssign)):
            targets = sub.targets if isinstance(sub, ast.Assign) else [sub.target]
            for target in targets:
                if isinstance(target, ast.Name):
                    if sub.value is not None:
                        assigns.setdefault(target.id, []).append(sub.value)
                else:
                    other.update(e.id for e in ast.walk(target) if isinstance(e, ast.Name) and isinstance(e.ctx, ast.Store))
        elif isinstance(sub, ast.AugAssign) and isinstance(sub.target, ast.Name):
            other.add(sub.target.id)
        elif isinstance(sub, (ast.For, ast.AsyncFor, ast.comprehension)):
            other.update(e.id for e in ast.walk(sub.target) if isinstance(e, ast.Name))
        elif isinstance(sub, ast.NamedExpr):
            other.add(sub.target.id)
        elif isinstance(sub, (ast.With, ast.AsyncWith)):
            for item in sub.items:
                if item.optional_vars is not None:
                    other.update(e.id for e in ast.walk(item.optional_vars) if isinstance(e, ast.Name))
        elif isinstance(sub, ast.ExceptHandler) and sub.name:
            other.add(sub.name)
        elif isinstance(sub, (ast.Global, ast.Nonlocal)):
            other.update(sub.names)
        elif isinstance(sub, (ast.FunctionDef, ast.AsyncFunctionDef)) and sub is not func.node:
            # a nested function may rebind through nonlocal
            other.update(name for inner in ast.walk(sub) if isinstance(inner, ast.Nonlocal) for name in inner.names)

    def condition_names(test: ast.AST) -> Iterator[ast.Name]:
        if isinstance(test, ast.Name):
            yield test
        elif isinstance(test, ast.UnaryOp) and isinstance(test.op, ast.Not):
            yield from condition_names(test.operand)
        elif isinstance(test, ast.BoolOp):
            for value in test.values:
                yield from condition_names(value)

    found: List[Tuple[ast.Name, object]] = []
    # boolean locals that are used at all (returned, passed on, logged) although they can hold one value only
    for name_id, values in assigns.items():
        if name_id in other or not all(isinstance(v, ast.Constant) and isinstance(v.value, bool) for v in values):  # type: ignore[attr-defined]
            continue
        loads = [s for s in walk_local(func.node) if isinstance(s, ast.Name) and s.id == name_id and isinstance(s.ctx, ast.Load)]
        if loads:
            constant = len({v.value for v in values}) == 1  # type: ignore[attr-defined]
            found.append((loads[0], values[0].value if constant else _NOT_CONSTANT))  # type: ignore[attr-defined]
    reported = {name.id for name, _ in found}
    for sub in walk_local(func.node):
        test = sub.test if isinstance(sub, (ast.If, ast.IfExp, ast.While)) else None
        if test is None:
            continue
        for name in condition_names(test):
            if name.id in reported:
                continue
            if name.id in other or name.id not in assigns:
                found.append((name, _NOT_CONSTANT))
                continue
            values = assigns[name.id]
            if all(isinstance(v, ast.Constant) for v in values) and len({repr(v.value) for v in values}) == 1:  # type: ignore[attr-defined]
                found.append((name, values[0].value))  # type: ignore[attr-defined]
            else:
                found.append((name, _NOT_CONSTANT))
    return found


_NOT_CONSTANT = object()


def is_single_valued(value: object) -> bool:
    return value is not _NOT_CONSTANT


def param_by_annotation(func: FuncInfo, *fragments: str, exact: bool = False) -> Optional[str]:
    """Name of the (first) parameter whose annotation text contains every fragment (or equals the single
    fragment with ``exact``): parameters are identified by what they are, not by what they are called."""
    arguments = func.node.args.posonlyargs + func.node.args.args + func.node.args.kwonlyargs  # type: ignore[attr-defined]
    for argument in arguments:
        if argument.annotation is None or argument.arg in ("self", "cls"):
            continue
        text = ast.unparse(argument.annotation)
        if (exact and text == fragments[0]) or (not exact and all(fragment in text for fragment in fragments)):
            return argument.arg
    return None


def _expand_conditional_assignments(node: ast.AST) -> ast.AST:
    """``x = a if t else b`` (x a local) becomes ``if t: x = a`` / ``else: x = b`` in a copy of the function; every
    other statement object is kept as it is (callers identify statements by identity)."""
    def rebuild(stmts: List[ast.stmt]) -> List[ast.stmt]:
        out: List[ast.stmt] = []
        for stmt in stmts:
            value = getattr(stmt, "value", None)
            target = stmt.targets[0] if isinstance(stmt, ast.Assign) and len(stmt.targets) == 1 else stmt.target if isinstance(stmt, ast.AnnAssign) else None
            if isinstance(value, ast.IfExp) and isinstance(target, ast.Name):
                branches = []
                for branch in (value.body, value.orelse):
                    assign = ast.Assign(targets=[target], value=branch)
                    ast.copy_location(assign, stmt)
                    branches.append(rebuild([assign]))
                expanded = ast.If(test=value.test, body=branches[0], orelse=branches[1])
                ast.copy_location(expanded, stmt)
                out.append(expanded)
                continue
            if isinstance(stmt, (ast.FunctionDef, ast.AsyncFunctionDef, ast.ClassDef)):
                out.append(stmt)
                continue
            fields = [f for f in ("body", "orelse", "finalbody") if isinstance(getattr(stmt, f, None), list) and getattr(stmt, f) and isinstance(getattr(stmt, f)[0], ast.stmt)]
            handlers = getattr(stmt, "handlers", None)
            if not fields and not handlers:
                out.append(stmt)
                continue
            rebuilt = {f: rebuild(getattr(stmt, f)) for f in fields}
            new_handlers = None
            if handlers:
                new_handlers = []
                for handler in handlers:
                    body = rebuild(handler.body)
                    if any(a is not b for a, b in zip(body, handler.body)):
                        clone = copy.copy(handler)
                        clone.body = body
                        new_handlers.append(clone)
                    else:
                        new_handlers.append(handler)
            changed = any(len(rebuilt[f]) != len(getattr(stmt, f)) or any(a is not b for a, b in zip(rebuilt[f], getattr(stmt, f))) for f in fields)
            changed = changed or bool(handlers and any(a is not b for a, b in zip(new_handlers or [], handlers)))
            if not changed:
                out.append(stmt)
                continue
            clone = copy.copy(stmt)
            for f in fields:
                setattr(clone, f, rebuilt[f])
            if new_handlers is not None:
                clone.handlers = new_handlers
            out.append(clone)
        return out

    assert isinstance(node, (ast.FunctionDef, ast.AsyncFunctionDef))
    body = rebuild(node.body)
    if all(a is b for a, b in zip(body, node.body)):
        return node
    clone = copy.copy(node)
    clone.body = body
    return clone


def decision_chain_problems(func: FuncInfo, classify: Callable[[ast.AST], Optional[str]], layers: List[str],
                            result_of: Optional[Callable[[ast.stmt], Optional[ast.AST]]] = None) -> Tuple[List[str], int]:
    """A value is chosen from ``layers`` in order: layer i is used only when every earlier layer gave None, and
    (unless it is the last) only when it gave a value itself.  Checked on every path through ``func`` whatever
    its shape (re-assigned variable, early returns, conditional expression).  ``classify`` says which layer an
    expression reads; ``result_of`` picks the chosen value out of a statement (default: the returned value).
    Returns (problems, number of deciding paths)."""
    cfg = CFG(_expand_conditional_assignments(func.node), raising=lambda n: False)
    pick = result_of or (lambda stmt: stmt.value if isinstance(stmt, ast.Return) else None)

    def narrow(test: ast.AST, outcome: bool, env: Dict[str, str], known: Dict[str, str]) -> bool:
        """record what the branch establishes; False when it contradicts what the path already knows (infeasible)"""
        name, is_none = None, None
        if isinstance(test, ast.Compare) and len(test.ops) == 1 and isinstance(test.left, ast.Name) and isinstance(test.comparators[0], ast.Constant) and test.comparators[0].value is None:
            name = test.left.id
            is_none = outcome if isinstance(test.ops[0], ast.Is) else (not outcome) if isinstance(test.ops[0], ast.IsNot) else None
        elif isinstance(test, ast.Name) and outcome:
            name, is_none = test.id, False
        if name is not None and is_none is not None and name in env:
            verdict = "none" if is_none else "value"
            if known.get(env[name], verdict) != verdict:
                return False
            known[env[name]] = verdict
        return True

    problems: List[str] = []
    deciding = 0
    for path in enumerate_paths(cfg, loop_bound=1):
        if path[-1][0] != cfg.exit:
            continue
        env: Dict[str, str] = {}
        known: Dict[str, str] = {}
        chosen: Optional[ast.AST] = None
        feasible = True
        for nid, label in path:
            node = cfg.nodes[nid]
            stmt = node.ast_node
            if stmt is None:
                continue
            if node.kind == "cond":
                if not narrow(stmt, label == "true", env, known):
                    feasible = False
                    break
            elif isinstance(stmt, (ast.Assign, ast.AnnAssign)) and getattr(stmt, "value", None) is not None:
                picked = pick(stmt)
                if picked is not None:
                    chosen = picked
                    continue
                layer = classify(stmt.value)
                targets = stmt.targets if isinstance(stmt, ast.Assign) else [stmt.target]
                for target in targets:
                    if isinstance(target, ast.Name):
                        if layer:
                            env[target.id] = layer
                            if layer != layers[-1]:
                                known.pop(layer, None)
                        elif isinstance(stmt.value, ast.Name) and stmt.value.id in env:
                            env[target.id] = env[stmt.value.id]
                        else:
                            env.pop(target.id, None)
            elif isinstance(stmt, ast.stmt):
                picked = pick(stmt)
                if picked is not None:
                    chosen = picked
        if chosen is None or not feasible:
            continue
        deciding += 1
        cases: List[Tuple[ast.AST, Dict[str, str]]] = [(chosen, dict(known))]
        if isinstance(chosen, ast.IfExp):
            cases = []
            for outcome, branch in ((True, chosen.body), (False, chosen.orelse)):
                branch_known = dict(known)
                if narrow(chosen.test, outcome, env, branch_known):
                    cases.append((branch, branch_known))
        for value, facts in cases:
            layer = classify(value) or (env.get(value.id) if isinstance(value, ast.Name) else None)
            if layer is None or layer not in layers:
                problems.append(f"a path chooses '{norm(value)[:50]}', which is none of {layers}")
                continue
            index = layers.index(layer)
            if index < len(layers) - 1 and facts.get(layer) != "value":
                problems.append(f"a path chooses the {layer} value without having established that it is not None: the next layer never gets its turn")
            for earlier in layers[:index]:
                if facts.get(earlier) != "none":
                    problems.append(f"a path chooses the {layer} value although the {earlier} layer may have decided: it is outranked")
    return sorted(set(problems)), deciding
