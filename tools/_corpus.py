"""Shared by reeval_seeded.py / reeval_neutral.py: apply each patch of a corpus in one of a pool of scratch
worktrees of /repo's HEAD (created under /tmp, removed at the end) and run tools/check_all.py on it."""
import os
import subprocess
import tempfile
from concurrent.futures import ThreadPoolExecutor
from queue import Queue

VERIF = os.path.dirname(os.path.dirname(os.path.abspath(__file__)))


def run(cmd, cwd=None, env=None):
    proc = subprocess.run(cmd, cwd=cwd, env=env, capture_output=True, text=True)
    return proc.returncode, proc.stdout + proc.stderr


def evaluate(patches, workers=8):
    """patches: list of (ident, patch path) -> {ident: None (does not apply) | {prop: (status, text)}}"""
    pool: Queue = Queue()
    trees = []
    for _ in range(min(workers, max(1, len(patches)))):
        path = tempfile.mkdtemp(prefix="corpus-", dir="/tmp")
        os.rmdir(path)
        code, out = run(["git", "-C", "/repo", "worktree", "add", "--detach", path, "HEAD"])
        if code != 0:
            raise SystemExit(out)
        trees.append(path)
        pool.put(path)

    def one(item):
        ident, patch = item
        tree = pool.get()
        try:
            run(["git", "reset", "-q", "--hard"], cwd=tree)
            run(["git", "clean", "-fdq"], cwd=tree)
            code, _ = run(["git", "apply", patch], cwd=tree)
            if code != 0:
                code, _ = run(["git", "apply", "--3way", patch], cwd=tree)
                run(["git", "reset", "-q"], cwd=tree)
            if code != 0:
                run(["git", "reset", "-q", "--hard"], cwd=tree)
                return ident, None
            _, out = run(["/venv/bin/python", os.path.join(VERIF, "tools", "check_all.py"), tree], cwd=VERIF)
            verdicts = {}
            for line in out.splitlines():
                parts = line.split(" ", 2)
                if len(parts) >= 2 and parts[0].startswith("C") and len(parts[0]) == 3:
                    verdicts[parts[0]] = (parts[1], parts[2] if len(parts) > 2 else "")
            return ident, verdicts
        finally:
            pool.put(tree)

    try:
        with ThreadPoolExecutor(max_workers=len(trees)) as executor:
            return dict(executor.map(one, patches))
    finally:
        for tree in trees:
            run(["git", "-C", "/repo", "worktree", "remove", "--force", tree])
