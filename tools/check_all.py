#!/venv/bin/python
"""
Run the quick rules of all 15 claimed properties on one tree in a single process (one program model):
  check_all.py <repo root>
Prints one line per property: '<Cnn> ok' | '<Cnn> VIOLATION <rule ids>' | '<Cnn> ANALYSIS-ERROR <text>';
known findings are applied as in check.py.  Used by the corpus re-evaluation tools; evidence is not written.
"""
import importlib
import json
import os
import sys

ROOT = os.path.dirname(os.path.dirname(os.path.abspath(__file__)))
sys.path.insert(0, ROOT)
os.environ["VERIF_REPO"] = os.path.abspath(sys.argv[1])

from sa.model import AnalysisError, Program, Source  # noqa: E402
from sa.report import Context, load_known  # noqa: E402

PROPS = ["C01", "C02", "C04", "C07", "C10", "C11", "C12", "C13", "C14", "C15", "C16", "C17", "C18", "C19", "C20"]


def main() -> int:
    known = load_known()
    try:
        prog = Program(Source(os.environ["VERIF_REPO"]))
    except AnalysisError as exc:
        for prop in PROPS:
            print(f"{prop} ANALYSIS-ERROR {str(exc)[:200]}")
        return 2
    status = 0
    for prop in PROPS:
        module = importlib.import_module(f"sa.rules.{prop.lower()}")
        ctx = Context(prog, "quick", prop)
        try:
            module.run(ctx)
            ctx.check_floors()
            floor = getattr(module, "RESOLUTION_FLOOR", 0.97)
            if prog.resolution_rate() < floor:
                raise AnalysisError(f"call resolution rate {prog.resolution_rate():.3f} below {floor}")
        except AnalysisError as exc:
            print(f"{prop} ANALYSIS-ERROR {str(exc)[:200]}")
            status = max(status, 2)
            continue
        except Exception as exc:  # an internal error of a rule counts as a refusal
            print(f"{prop} ANALYSIS-ERROR internal error: {type(exc).__name__}: {str(exc)[:160]}")
            status = max(status, 2)
            continue
        unlisted = [f for f in ctx.findings() if f"{prop}|{f.rule}|{f.key}" not in known]
        if unlisted:
            rules = sorted({f.rule for f in unlisted})
            print(f"{prop} VIOLATION {' '.join(rules)} :: {unlisted[0].where}: {unlisted[0].message[:160]}")
            status = max(status, 1)
        else:
            print(f"{prop} ok")
    if prog.source.renames:
        print(f"note {len(prog.source.renames)} renamed member(s) re-identified")
    return status


if __name__ == "__main__":
    sys.exit(main())
