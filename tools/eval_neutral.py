#!/venv/bin/python
"""
Evaluate behaviour-preserving refactorings (written by sub-agents, or by hand) against every check:
  eval_neutral.py <worktree> <diff> [<diff> ...]
Each diff is applied in the scratch worktree, all 15 quick checks run with VERIF_REPO pointing
there, and every check that does not exit 0 is printed: on a refactoring that is a false alarm
(exit 1) or a refusal (exit 2) of the machinery.  The worktree is restored afterwards.
"""
import os
import subprocess
import sys
import tempfile
from concurrent.futures import ThreadPoolExecutor

VERIF = os.path.dirname(os.path.dirname(os.path.abspath(__file__)))
PROPS = ["C01", "C02", "C04", "C07", "C10", "C11", "C12", "C13", "C14", "C15", "C16", "C17", "C18", "C19", "C20"]


def run(cmd, cwd=None, env=None):
    proc = subprocess.run(cmd, cwd=cwd, env=env, capture_output=True, text=True)
    return proc.returncode, proc.stdout + proc.stderr


def check(prop, worktree):
    env = dict(os.environ, VERIF_REPO=worktree, VERIF_EVIDENCE_DIR=tempfile.mkdtemp(prefix="neutral-ev-"))
    code, out = run(["/venv/bin/python", os.path.join(VERIF, "check.py"), prop], cwd=VERIF, env=env)
    lines = [l for l in out.splitlines() if l.startswith("  R") or l.startswith("ANALYSIS-ERROR") or l.startswith("note:")]
    return prop, code, lines


def main():
    worktree = sys.argv[1]
    problems = 0
    for diff in sys.argv[2:]:
        run(["git", "checkout", "--", "."], cwd=worktree)
        code, out = run(["git", "apply", os.path.abspath(diff)], cwd=worktree)
        if code != 0:
            print(f"{diff}: does not apply: {out[-200:]}")
            continue
        with ThreadPoolExecutor(max_workers=15) as pool:
            results = list(pool.map(lambda p: check(p, worktree), PROPS))
        bad = [(p, c, l) for p, c, l in results if c != 0]
        notes = sorted({l for _p, _c, lines in results for l in lines if l.startswith("note:")})
        print(f"{diff}: {'silent' if not bad else 'FIRED'}" + (f"  ({len(notes)} renamed private member(s) re-identified)" if notes else ""))
        for prop, code, lines in bad:
            problems += 1
            for line in [l for l in lines if not l.startswith("note:")][:4]:
                print(f"    {prop} exit {code}: {line[:300]}")
        run(["git", "checkout", "--", "."], cwd=worktree)
    return 1 if problems else 0


if __name__ == "__main__":
    sys.exit(main())
