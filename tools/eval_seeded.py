#!/venv/bin/python
"""
Evaluate a seeded change against every check without touching /repo:
  eval_seeded.py <worktree> <patch.diff> [demo.py]
applies the patch inside the scratch worktree, runs the suite check (optional), the demo and
all quick checks with VERIF_REPO=<worktree>, then restores the worktree.
"""
import json
import os
import subprocess
import sys
import tempfile

VERIF = os.path.dirname(os.path.dirname(os.path.abspath(__file__)))
PROPS = ["C01", "C02", "C04", "C07", "C10", "C11", "C12", "C13", "C14", "C15", "C16", "C17", "C18", "C19", "C20"]


def run(cmd, cwd=None, env=None, timeout=1200):
    proc = subprocess.run(cmd, cwd=cwd, env=env, capture_output=True, text=True, timeout=timeout)
    return proc.returncode, proc.stdout + proc.stderr


def main() -> None:
    worktree, patch = sys.argv[1], os.path.abspath(sys.argv[2])
    demo = os.path.abspath(sys.argv[3]) if len(sys.argv) > 3 else None
    do_suite = os.environ.get("EVAL_SUITE", "1") == "1"
    result = {"patch": patch, "worktree": worktree}
    run(["git", "checkout", "--", "."], cwd=worktree)
    if demo:
        code, out = run(["/venv/bin/python", demo], cwd=worktree)
        result["demo_clean_exit"] = code
    code, out = run(["git", "apply", patch], cwd=worktree)
    if code != 0:
        print(json.dumps({"error": "patch does not apply", "detail": out[-500:]}))
        return
    try:
        if demo:
            code, out = run(["/venv/bin/python", demo], cwd=worktree)
            result["demo_patched_exit"] = code
            result["demo_patched_tail"] = out[-400:]
        if do_suite:
            code, out = run(["/venv/bin/python", "-m", "pytest", "-q", "-p", "no:cacheprovider", "-n", "16", "-q"], cwd=worktree)
            failed = sorted({line.split(" - ")[0] for line in out.splitlines() if line.startswith(("FAILED", "ERROR"))})
            result["suite_failures"] = failed
        env = dict(os.environ, VERIF_REPO=worktree, VERIF_EVIDENCE_DIR=tempfile.mkdtemp(prefix="seed-ev-"))
        fired = {}
        for prop in PROPS:
            code, out = run(["/venv/bin/python", os.path.join(VERIF, "check.py"), prop], cwd=VERIF, env=env)
            if code != 0:
                lines = [l for l in out.splitlines() if l.startswith("  R") or l.startswith("ANALYSIS-ERROR")]
                fired[prop] = {"exit": code, "reports": lines[:6]}
        result["fired"] = fired
    finally:
        run(["git", "checkout", "--", "."], cwd=worktree)
        run(["git", "clean", "-fdq", "--exclude=_seed"], cwd=worktree)
    print(json.dumps(result, indent=1))


if __name__ == "__main__":
    main()
