#!/venv/bin/python
"""Regenerates sa/baseline/c02_fields.json from /repo's current tree (run on the pinned, reviewed tree only)."""
import json, os, sys
ROOT = os.path.dirname(os.path.dirname(os.path.abspath(__file__)))
sys.path.insert(0, ROOT)
from sa.model import Program
from sa.rules.c02 import consumed_fields, BASELINE
prog = Program()
fields = consumed_fields(prog)
with open(BASELINE, "w", encoding="utf-8") as handle:
    json.dump({"_comment": "handler role (<TokenClass>:start|end, or core) -> token class.property pairs read in the closure of that Markdown regeneration handler on the pinned tree", "fields": fields}, handle, indent=1)
    handle.write("\n")
print(sum(len(v) for v in fields.values()), "class.field pairs in", len(fields), "classes")
