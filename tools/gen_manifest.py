#!/venv/bin/python
"""Regenerates /verif/MANIFEST.json from the rule modules that exist (keeps it valid at all times)."""
import importlib
import json
import os
import sys

ROOT = os.path.dirname(os.path.dirname(os.path.abspath(__file__)))
sys.path.insert(0, ROOT)

ALL = [f"C{n:02d}" for n in range(1, 21)]
NOT_APPLICABLE = {
    "C03": "conformance is equality with an independent parser's output per document: no clause has its truth in the shape of the code (no sound static oracle for CommonMark structure in reach)",
    "C05": "line/column values are sums of runtime deltas over the input; the only structural hook would be a frozen-fragment match on one formula, which is a brittle proxy, not a necessary condition",
    "C06": "the oracle is each rule's prose condition evaluated on a runtime document; only the configuration tables are structural and those are decided under C17 (R17d), not offered as evidence for C06",
    "C08": "meaning preservation compares rendered structure of runtime documents before and after fix; no static clause (the letter-deleting sentinel it cites is reported under C02 R02a)",
    "C09": "convergence depends on what each fix does to the next parse; a writer-level < reader-level dependency rule only ranks candidates, it is not exact",
}
TECHNIQUE = {
    "C01": 'CFG definite-divergence analysis of every while loop (stuck back-edge paths); may-be-None dataflow over the CFG of every parser function (unguarded dereference); regex parse-tree analysis (re._parser) for repeated groups with overlapping iterations; pure stdlib ast',
    "C02": 'AST table agreement + sentinel alphabet + handler stack pairing + field-consumption def-use over the regeneration call graph + single-valued-flag contradiction rule',
    "C04": "who-may-construct / name-agreement tables / pop-implies-end-emitted pairing on the parser's token stack (ast + call graph) + single-valued-flag contradiction rule + must-pass-through pairing of 'replacement token put into the stream' with 're-point the stack entry' (CFG)",
    "C07": 'try-containment of plugin callbacks, who-may-call, comparator-shape, single output path, set-order and temp-name taint, constant-format-template rule, may-be-None dataflow over rule code (ast + CFG + call graph) + typestate of the token a rule reports at (kind established or end of stream excluded on the path); length-guard / constant-index contradiction rule over every conjunction',
    "C10": 'call-graph reachability scan->file-mutation sinks; flag provenance / monotone accumulation of the fixed flag (ast def-use); temp-file pairing on all exits; abstract interpretation of the run driver over a finite domain (thorough tier)',
    "C11": 'pragma filter in disjunctive normal form (line test, rule-id test, independence of the two tables), pragma-first ordering, compile-before-first-collecting-callback event order, sign-encoded key decoding, per-file reset, table writers, gating (ast + CFG + event-order product) + recogniser/compiler agreement on trailing whitespace and documented closing sequences, every-entry search, sign-aware ordering and arithmetic on the keys',
    "C12": 'no run-time writes to class/module state in rules (including class-level containers mutated through instances), helper ownership, token-mutator and token-container receivers, dispatcher-visible context state, four-way dispatch-table agreement, own-section lookup (ast + call graph) + no rule reads the plugin manager through its context; a scan tokenizes unconditionally; length-guard / constant-index contradiction rule over every conjunction',
    "C13": 'state-reset analysis: fields written on the per-file path vs fields killed on every path of the reset entry (rules, helpers, every field of the plugin manager, tokenizer), aliasing resets, dominance of parser-static initialisers (ast + call graph + CFG) + dispatch lists written only by the configuration step; no memoised methods on rules',
    "C14": 'event-order summaries of the scan/fix passes checked against the life-cycle regular language; provider typestate; reaching definitions in dispatchers; sibling agreement of the tokenizer call sites and of the per-pass context maps + frozen dispatch lists, fix-line emptied before the callback on every fix-mode path, newline mode and whole-file read of the provider, case-normalisation dataflow of the identifiers a rule is registered under',
    "C15": 'exception-containment/routing over CFG exception edges (may-raise fixpoint), status value-flow, reported=>failed, temp-file release on all exits (pairing), atomic write-back rule, abstract interpretation of the run driver with fault points (thorough tier) + every handler of the run driver reports or re-raises on every path (CFG), staged copy: mode kept, handle closed, user"s file never removed, staging name made by tempfile; strict decoding of document opens',
    "C16": 'API->main funnel and option-table agreement, encoding agreement of writers/readers, ParserLogger $-arity check over all call sites, log-level-dependence and stack-trace-flag taint, API results from the presentation object (type-resolved) + sibling agreement of the API methods on catching and handing on the exit code; strict decoding of document opens; repeatable API options only accumulate (mutator check over the API class)',
    "C17": 'layer-order event automaton and decision-chain shape, section provenance, validation discipline of initialize_from_config, validator-vs-message range agreement by evaluating closed integer predicates, doc-table vs code-table agreement for every rule (ast + Markdown tables) + documented default-file names vs symbolically evaluated loader arguments, validators test the value as written, pinned table of validated items, handlers of main always end the run',
    "C18": 'table agreement (enum/scheme dicts/docs/property), who-may-exit, reaching ApplicationResult constants, path enumeration of the precedence chain, configuration-read-after-load order, reported=>failed, driver exploration (thorough tier) + strict and validated read of the configured scheme; strict decoding of document opens (undecodable file = system error)',
    "C19": 'sorted(set) escape rule, control dependence of add() on eligibility, canonical-spelling derivation of every added path, error-branch discipline, discovery-flag must-read-before-exit and flag-alone-excludes-processing (CFG), glob trigger/flags vs documentation, argument independence (shared mutable state) + no error decision reads the accumulated selection; walk not pruned, glob expansion not filtered',
    "C20": "flag-gating analysis in both directions: every parser reference to an extension entry symbol is control-dependent on that extension's enabled flag, and every test of a flag (or flag proxy) opens a region that uses the extension (ast guards, inter-procedural closure); flag derivation; doc-table agreement + third-party parser calls under a handler for the library's root exception; whole-name comparison in the disallowed-tag decision",
}


def main() -> None:
    checks = []
    not_applicable = []
    for prop in ALL:
        if prop in NOT_APPLICABLE:
            not_applicable.append({"property_id": prop, "reason": NOT_APPLICABLE[prop]})
            continue
        path = os.path.join(ROOT, "sa", "rules", f"{prop.lower()}.py")
        if not os.path.exists(path):
            not_applicable.append({"property_id": prop, "reason": "static check planned in DESIGN.md section 3 but not built yet; not claimed until it exists"})
            continue
        module = importlib.import_module(f"sa.rules.{prop.lower()}")
        checks.append(
            {
                "property_id": prop,
                "quick_cmd": f"/venv/bin/python check.py {prop} --tier quick",
                "thorough_cmd": f"/venv/bin/python check.py {prop} --tier thorough",
                "evidence_file": f"/verif/evidence/{prop}.json",
                "replay_cmd_template": f"/venv/bin/python check.py {prop} --tier quick --replay {{path}}",
                "engine": "sa",
                "level_claimed": {
                    "category": "other",
                    "text": module.EXPLANATION,
                    "design_ref": f"DESIGN.md section 3, {prop}",
                },
                "level_note": "Trusted base: CPython's ast parser and the engine in /verif/sa (resolver with a resolution-rate floor, CFG builder). "
                + " ".join(getattr(module, "ASSUMPTIONS", [])),
                "technique": "static analysis: " + TECHNIQUE[prop],
            }
        )
    manifest = {
        "version": 1,
        "setup_cmd": "/venv/bin/python -c \"import ast, sys; sys.exit(0 if sys.version_info >= (3, 9) else 1)\"",
        "hooks": {
            "guard": "JACKDEWINTER_PYMARKDOWN_VERIF",
            "enable": "no hooks are needed or used: every check parses /repo's sources and never runs them",
            "baseline_off_cmd": "cd /repo && /venv/bin/python -m pytest -ra -q -p no:cacheprovider --timeout=900 --continue-on-collection-errors",
            "source_commits": [],
            "add_only": True,
        },
        "engines": [
            {
                "name": "sa",
                "path": "/verif/sa",
                "serves_properties": [c["property_id"] for c in checks],
                "kind_free_text": "repository-specific static analyser on stdlib ast: program model with annotation-driven call resolution, statement CFG with exception edges, rule families (ownership, containment, pairing, gating, reset, event order, table agreement, value flow)",
            }
        ],
        "checks": checks,
        "notes": "Family: static analysis only. Every check re-parses /repo's working tree on each run, reports constructs (file:line, function, call path) and exits 2 (ANALYSIS-ERROR) rather than pass when an anchor vanishes. Known findings: /verif/known_findings.json. Seeded breaking changes used to test the checks: /verif/seeded/.",
        "not_applicable": not_applicable,
    }
    with open(os.path.join(ROOT, "MANIFEST.json"), "w", encoding="utf-8") as handle:
        json.dump(manifest, handle, indent=1)
        handle.write("\n")
    print(f"MANIFEST.json: {len(checks)} checks, {len(not_applicable)} not applicable")


if __name__ == "__main__":
    main()
