#!/venv/bin/python
"""
Record the private members (double-underscore methods and fields) of every class of the pinned
tree with their structural fingerprints: sa/baseline/private_members.json.  sa/canon.py uses it
to analyse a renamed private member under its pinned name.  Regenerate only on a tree whose
checks pass (the recorded names are the ones the rules and the known-findings keys use).
"""
import ast
import json
import os
import sys

ROOT = os.path.dirname(os.path.dirname(os.path.abspath(__file__)))
sys.path.insert(0, ROOT)

from sa import canon  # noqa: E402
from sa.model import Source  # noqa: E402


def main() -> None:
    source = Source()
    out = {}
    members = 0
    for rel in source.python_files():
        per_class = canon.file_members(ast.parse(source.read(rel, raw=True)))
        per_class = {qual: entry for qual, entry in per_class.items() if entry}
        if per_class:
            out[rel] = per_class
            members += sum(len(v) for v in per_class.values())
    # public methods whose name is defined once in the whole package (renaming one back cannot clash)
    definitions = {}
    trees = {}
    for rel in source.python_files():
        trees[rel] = ast.parse(source.read(rel, raw=True))
        for node in ast.walk(trees[rel]):
            if isinstance(node, (ast.FunctionDef, ast.AsyncFunctionDef)):
                definitions[node.name] = definitions.get(node.name, 0) + 1
    public = {}
    public_count = 0
    for rel, tree in trees.items():
        per_class = {}
        for qual, entry in canon.public_members(tree).items():
            unique = {name: value for name, value in entry.items() if definitions.get(name) == 1}
            if unique:
                per_class[qual] = unique
                public_count += len(unique)
        if per_class:
            public[rel] = per_class
    out[canon.PUBLIC_KEY] = public
    with open(canon.BASELINE_PATH, "w", encoding="utf-8") as handle:
        json.dump(out, handle, sort_keys=True, separators=(",", ":"))
        handle.write("\n")
    print(f"{len(out) - 1} files, {members} private members and {public_count} uniquely named public methods recorded -> {canon.BASELINE_PATH}")


if __name__ == "__main__":
    main()
