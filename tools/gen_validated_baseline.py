#!/venv/bin/python
"""
Record, for the pinned tree, which configuration items of which rule are read with a validator:
  sa/baseline/validated_items.json : {"<RuleClass>": ["<item>", ...]}
R17j requires that an item validated on the pinned tree is still validated.
"""
import ast
import json
import os
import sys

ROOT = os.path.dirname(os.path.dirname(os.path.abspath(__file__)))
sys.path.insert(0, ROOT)

from sa.model import Program, Source, walk_local  # noqa: E402
from sa.rules.c17 import validated_items  # noqa: E402

prog = Program(Source())
table = validated_items(prog)
path = os.path.join(ROOT, "sa", "baseline", "validated_items.json")
with open(path, "w", encoding="utf-8") as handle:
    json.dump({cls: sorted(items) for cls, items in sorted(table.items()) if items}, handle, indent=1)
    handle.write("\n")
print(f"{sum(len(v) for v in table.values())} validated items of {len([v for v in table.values() if v])} rules -> {path}")
