#!/venv/bin/python
"""
Unbiased probe of the checks: mechanical one-point mutants of the driver-side functions, filtered by the
repository's own test suite, then shown to all 15 quick checks.

  mutation_probe.py <scratch worktree> <count> [seed]      # the worktree is a scratch checkout of /repo's HEAD

For every sampled mutant: the mutated file is written into the worktree, the suite is run (stopping at the first
failure other than the baseline's always-failing test); a mutant the suite lets through is handed to
tools/check_all.py.  One JSON line per mutant goes to stdout: operator, file, function, line, the statement before
and after, 'suite' (killed / survived) and, for survivors, the check verdicts.  Survivors that no check reports are
candidates for triage by reading (many are equivalent: a dropped debug aid, a redundant guard); nothing is decided
automatically and nothing here is a registered check.
"""
import ast
import copy
import json
import os
import random
import subprocess
import sys

VERIF = os.path.dirname(os.path.dirname(os.path.abspath(__file__)))
FILES = [
    "pymarkdown/file_scan_helper.py",
    "pymarkdown/main.py",
    "pymarkdown/plugin_manager/plugin_manager.py",
    "pymarkdown/plugin_manager/plugin_scan_context.py",
    "pymarkdown/plugin_manager/plugin_scan_failure.py",
    "pymarkdown/plugin_manager/rule_plugin.py",
    "pymarkdown/application_file_scanner.py",
    "pymarkdown/return_code_helper.py",
    "pymarkdown/extensions/pragma_token.py",
    "pymarkdown/general/source_providers.py",
    "pymarkdown/extension_manager/extension_manager.py",
    "pymarkdown/application_configuration_helper.py",
    "pymarkdown/api.py",
    "pymarkdown/general/main_presentation.py",
]
KNOWN_FAILING = "test_markdown_with_dash_e_single_by_id_and_bad_config_file"


def is_logging(stmt: ast.stmt) -> bool:
    if isinstance(stmt, ast.Expr) and isinstance(stmt.value, ast.Call):
        text = ast.unparse(stmt.value.func)
        return text.startswith(("LOGGER.", "POGGER.", "logging.")) or text == "print"
    return False


def candidates(tree: ast.Module):
    """(operator, function name, node, mutate(node copy) -> None) for every mutation point"""
    found = []
    for func in ast.walk(tree):
        if not isinstance(func, (ast.FunctionDef, ast.AsyncFunctionDef)):
            continue
        for node in ast.walk(func):
            if isinstance(node, ast.Expr) and isinstance(node.value, ast.Call) and not is_logging(node):
                found.append(("delete-call", func.name, node))
            elif isinstance(node, ast.Assign) and not isinstance(node.value, ast.Constant):
                found.append(("delete-assign", func.name, node))
            elif isinstance(node, ast.If):
                found.append(("negate-if", func.name, node))
            elif isinstance(node, ast.BoolOp):
                found.append(("swap-and-or", func.name, node))
            elif isinstance(node, ast.Constant) and isinstance(node.value, bool):
                found.append(("flip-bool", func.name, node))
            elif isinstance(node, ast.Compare) and len(node.ops) == 1 and isinstance(node.ops[0], (ast.Lt, ast.LtE, ast.Gt, ast.GtE, ast.Eq, ast.NotEq, ast.Is, ast.IsNot, ast.In, ast.NotIn)):
                found.append(("compare", func.name, node))
            elif isinstance(node, (ast.Break, ast.Continue)):
                found.append(("drop-jump", func.name, node))
            elif isinstance(node, ast.Return) and node.value is not None and isinstance(node.value, ast.Name):
                found.append(("return-none", func.name, node))
    return found


SWAP = {ast.Lt: ast.LtE, ast.LtE: ast.Lt, ast.Gt: ast.GtE, ast.GtE: ast.Gt, ast.Eq: ast.NotEq, ast.NotEq: ast.Eq, ast.Is: ast.IsNot, ast.IsNot: ast.Is, ast.In: ast.NotIn, ast.NotIn: ast.In}


def mutate(tree: ast.Module, index: int) -> ast.Module:
    clone = copy.deepcopy(tree)
    operator, _name, node = candidates(clone)[index]
    if operator in ("delete-call", "delete-assign", "drop-jump"):
        replacement = ast.Pass()
        ast.copy_location(replacement, node)
        for holder in ast.walk(clone):
            for field in ("body", "orelse", "finalbody"):
                block = getattr(holder, field, None)
                if isinstance(block, list) and node in block:
                    block[block.index(node)] = replacement
    elif operator == "negate-if":
        node.test = ast.UnaryOp(op=ast.Not(), operand=node.test)
    elif operator == "swap-and-or":
        node.op = ast.Or() if isinstance(node.op, ast.And) else ast.And()
    elif operator == "flip-bool":
        node.value = not node.value
    elif operator == "compare":
        node.ops = [SWAP[type(node.ops[0])]()]
    elif operator == "return-none":
        node.value = ast.Constant(value=None)
    ast.fix_missing_locations(clone)
    return clone


def main() -> None:
    worktree, count = sys.argv[1], int(sys.argv[2])
    seed = int(sys.argv[3]) if len(sys.argv) > 3 else 1
    rng = random.Random(seed)
    pool = []
    trees = {}
    files = FILES
    only_functions = None
    if os.environ.get("PROBE_GLOB"):  # e.g. PROBE_GLOB='pymarkdown/plugins/rule_md_0*.py' PROBE_FUNCTIONS='starting_new_file,initialize_from_config'
        import glob

        files = sorted(os.path.relpath(path, worktree) for path in glob.glob(os.path.join(worktree, os.environ["PROBE_GLOB"])))
    if os.environ.get("PROBE_FUNCTIONS"):
        only_functions = set(os.environ["PROBE_FUNCTIONS"].split(","))
    for rel in files:
        path = os.path.join(worktree, rel)
        if not os.path.exists(path):
            continue
        with open(path, encoding="utf-8") as handle:
            text = handle.read()
        trees[rel] = (text, ast.parse(text))
        for index, (operator, name, node) in enumerate(candidates(trees[rel][1])):
            if only_functions is None or name in only_functions:
                pool.append((rel, index, operator, name, node.lineno, ast.unparse(node)[:120]))
    rng.shuffle(pool)
    for rel, index, operator, name, line, before in pool[:count]:
        text, tree = trees[rel]
        mutant = mutate(tree, index)
        after_node = candidates(mutant)[index][2] if index < len(candidates(mutant)) else None
        path = os.path.join(worktree, rel)
        # keep the file's formatting: splice only the mutated function back in
        target = next(f for f in ast.walk(tree) if isinstance(f, (ast.FunctionDef, ast.AsyncFunctionDef)) and f.name == name and f.lineno <= line <= (f.end_lineno or line))
        mutated_func = next(f for f in ast.walk(mutant) if isinstance(f, (ast.FunctionDef, ast.AsyncFunctionDef)) and f.name == name and f.lineno == target.lineno)
        lines = text.split("\n")
        indent = " " * target.col_offset
        first = min([target.lineno] + [d.lineno for d in target.decorator_list])
        new_lines = [indent + part if part else part for part in ast.unparse(mutated_func).split("\n")]
        patched = "\n".join(lines[: first - 1] + new_lines + lines[target.end_lineno:])
        record = {"file": rel, "function": name, "line": line, "operator": operator, "before": before,
                  "after": ast.unparse(after_node)[:120] if after_node is not None and operator not in ("delete-call", "delete-assign", "drop-jump") else "pass"}
        try:
            ast.parse(patched)
        except SyntaxError:
            continue
        with open(path, "w", encoding="utf-8") as handle:
            handle.write(patched)
        try:
            proc = subprocess.run(["/venv/bin/python", "-m", "pytest", "-q", "-p", "no:cacheprovider", "-n", "16", "-q", "-x", "--deselect", "test/test_main_config.py::test_markdown_with_dash_e_single_by_id_and_bad_config_file"],
                                  cwd=worktree, capture_output=True, text=True, timeout=600)
            failed = [l for l in proc.stdout.splitlines() if l.startswith(("FAILED", "ERROR")) and KNOWN_FAILING not in l]
            record["suite"] = "killed" if failed or proc.returncode not in (0,) else "survived"
            if record["suite"] == "survived":
                checks = subprocess.run(["/venv/bin/python", os.path.join(VERIF, "tools", "check_all.py"), worktree], capture_output=True, text=True, timeout=900)
                record["checks"] = [l for l in checks.stdout.splitlines() if not l.endswith(" ok") and not l.startswith("note")]
        except subprocess.TimeoutExpired:
            record["suite"] = "timeout"
        finally:
            with open(path, "w", encoding="utf-8") as handle:
                handle.write(text)
        print(json.dumps(record), flush=True)


if __name__ == "__main__":
    main()
