#!/venv/bin/python
"""
Re-evaluate the corpus of behaviour-preserving refactorings under /verif/neutral against the current
checks:  reeval_neutral.py [id ...]
Every patch is applied (three-way if its context moved) in a scratch worktree of /repo's HEAD (a pool of
eight under /tmp, removed at the end); all 15 quick rule sets must stay silent on it.  Exit 1 when any
check raises an alarm or refuses on a refactoring.
"""
import os
import sys

sys.path.insert(0, os.path.dirname(os.path.abspath(__file__)))
from _corpus import VERIF, evaluate  # noqa: E402

CORPUS = os.path.join(VERIF, "neutral")


def main():
    wanted = sys.argv[1:]
    patches = [(ident, os.path.join(CORPUS, ident, "patch.diff")) for ident in sorted(os.listdir(CORPUS))
               if os.path.exists(os.path.join(CORPUS, ident, "patch.diff")) and (not wanted or ident in wanted)]
    results = evaluate(patches)
    problems = 0
    for ident, _ in patches:
        verdicts = results[ident]
        if verdicts is None:
            print(f"{ident}: patch does not apply to the current tree")
            continue
        bad = {prop: v for prop, v in verdicts.items() if v[0] != "ok"}
        if len(verdicts) < 15:
            bad["?"] = ("ANALYSIS-ERROR", "the checker did not report on every property")
        print(f"{ident}: {'silent' if not bad else 'FIRED'}")
        for prop, (status, text) in sorted(bad.items()):
            problems += 1
            print(f"    {prop} {status}: {text[:260]}")
    print(f"{len(patches)} refactorings, {problems} alarm(s) / refusal(s)")
    return 1 if problems else 0


if __name__ == "__main__":
    sys.exit(main())
