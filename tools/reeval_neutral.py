#!/venv/bin/python
"""
Re-evaluate the corpus of behaviour-preserving refactorings under /verif/neutral against the current
checks:  reeval_neutral.py [id ...]
Every patch is applied (three-way if its context moved) in a scratch worktree of /repo's HEAD that is
created under /tmp and removed at the end; all 15 quick checks must exit 0 on it.  Exit 1 when any
check raises an alarm (exit 1) or refuses (exit 2) on a refactoring.
"""
import os
import subprocess
import sys
import tempfile
from concurrent.futures import ThreadPoolExecutor

VERIF = os.path.dirname(os.path.dirname(os.path.abspath(__file__)))
CORPUS = os.path.join(VERIF, "neutral")
PROPS = ["C01", "C02", "C04", "C07", "C10", "C11", "C12", "C13", "C14", "C15", "C16", "C17", "C18", "C19", "C20"]


def run(cmd, cwd=None, env=None):
    proc = subprocess.run(cmd, cwd=cwd, env=env, capture_output=True, text=True)
    return proc.returncode, proc.stdout + proc.stderr


def check(prop, worktree):
    env = dict(os.environ, VERIF_REPO=worktree, VERIF_EVIDENCE_DIR=tempfile.mkdtemp(prefix="neutral-ev-"))
    code, out = run(["/venv/bin/python", os.path.join(VERIF, "check.py"), prop], cwd=VERIF, env=env)
    return prop, code, [l for l in out.splitlines() if l.startswith("  R") or l.startswith("ANALYSIS-ERROR")]


def main():
    wanted = sys.argv[1:]
    worktree = tempfile.mkdtemp(prefix="reneutral-", dir="/tmp")
    os.rmdir(worktree)
    code, out = run(["git", "-C", "/repo", "worktree", "add", "--detach", worktree, "HEAD"])
    if code != 0:
        print(out)
        return 2
    problems = 0
    try:
        for ident in sorted(os.listdir(CORPUS)):
            patch = os.path.join(CORPUS, ident, "patch.diff")
            if not os.path.exists(patch) or (wanted and ident not in wanted):
                continue
            run(["git", "checkout", "--", "."], cwd=worktree)
            run(["git", "clean", "-fdq"], cwd=worktree)
            code, out = run(["git", "apply", patch], cwd=worktree)
            if code != 0:
                code, out = run(["git", "apply", "--3way", patch], cwd=worktree)
                run(["git", "reset", "-q"], cwd=worktree)
            if code != 0:
                run(["git", "reset", "-q", "--hard"], cwd=worktree)
                print(f"{ident}: patch does not apply to the current tree")
                continue
            with ThreadPoolExecutor(max_workers=15) as pool:
                results = list(pool.map(lambda p: check(p, worktree), PROPS))
            bad = [(p, c, l) for p, c, l in results if c != 0]
            print(f"{ident}: {'silent' if not bad else 'FIRED'}")
            for prop, code, lines in bad:
                problems += 1
                for line in lines[:3]:
                    print(f"    {prop} exit {code}: {line[:260]}")
    finally:
        run(["git", "-C", "/repo", "worktree", "remove", "--force", worktree])
    return 1 if problems else 0


if __name__ == "__main__":
    sys.exit(main())
