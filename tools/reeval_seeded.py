#!/venv/bin/python
"""
Re-evaluate every seeded change under /verif/seeded against the current checks:
  reeval_seeded.py [id ...]
Each patch is applied in a scratch worktree of /repo's HEAD (created under /tmp and removed at the
end), all 15 quick checks run on it with VERIF_REPO pointing there (in parallel), and the table
`reported_now` of the change's meta.json is rewritten.  Nothing under /repo is touched.
"""
import json
import os
import subprocess
import sys
import tempfile
from concurrent.futures import ThreadPoolExecutor

VERIF = os.path.dirname(os.path.dirname(os.path.abspath(__file__)))
SEEDED = os.path.join(VERIF, "seeded")
PROPS = ["C01", "C02", "C04", "C07", "C10", "C11", "C12", "C13", "C14", "C15", "C16", "C17", "C18", "C19", "C20"]


def run(cmd, cwd=None, env=None):
    proc = subprocess.run(cmd, cwd=cwd, env=env, capture_output=True, text=True)
    return proc.returncode, proc.stdout + proc.stderr


def check(prop, worktree):
    env = dict(os.environ, VERIF_REPO=worktree, VERIF_EVIDENCE_DIR=tempfile.mkdtemp(prefix="seed-ev-"))
    code, out = run(["/venv/bin/python", os.path.join(VERIF, "check.py"), prop], cwd=VERIF, env=env)
    rules = sorted({line.strip().split(" ")[0] for line in out.splitlines() if line.startswith("  R")})
    return prop, code, rules, [l for l in out.splitlines() if l.startswith("ANALYSIS-ERROR")][:1]


def main():
    wanted = sys.argv[1:]
    worktree = tempfile.mkdtemp(prefix="reeval-", dir="/tmp")
    os.rmdir(worktree)
    code, out = run(["git", "-C", "/repo", "worktree", "add", "--detach", worktree, "HEAD"])
    if code != 0:
        print(out)
        return 2
    head = run(["git", "-C", "/repo", "rev-parse", "--short", "HEAD"])[1].strip()
    try:
        for ident in sorted(os.listdir(SEEDED)):
            directory = os.path.join(SEEDED, ident)
            meta_path = os.path.join(directory, "meta.json")
            if not os.path.exists(meta_path) or (wanted and ident not in wanted):
                continue
            with open(meta_path, encoding="utf-8") as handle:
                meta = json.load(handle)
            run(["git", "checkout", "--", "."], cwd=worktree)
            code, out = run(["git", "apply", os.path.join(directory, "patch.diff")], cwd=worktree)
            if code != 0:  # context moved by a later fix: commit: try a three-way merge of the hunks
                run(["git", "checkout", "--", "."], cwd=worktree)
                code, out = run(["git", "apply", "--3way", os.path.join(directory, "patch.diff")], cwd=worktree)
                if code == 0:
                    run(["git", "reset", "-q"], cwd=worktree)
                else:
                    run(["git", "checkout", "--", "."], cwd=worktree)
                    run(["git", "reset", "-q", "--hard"], cwd=worktree)
            if code != 0:
                meta["reported_now"] = {"tree": head, "applies": False}
                print(f"{ident}: patch does not apply to {head}")
            else:
                with ThreadPoolExecutor(max_workers=15) as pool:
                    results = list(pool.map(lambda p: check(p, worktree), PROPS))
                fired = {prop: rules for prop, code, rules, _ in results if code == 1}
                errors = {prop: err for prop, code, _, err in results if code == 2}
                meta["reported_now"] = {"tree": head, "applies": True, "violations": fired, "analysis_errors": errors}
                own = meta["breaks_property"] in fired
                print(f"{ident}: {'own check' if own else 'OTHER' if fired else 'MISSED'} {fired} {errors or ''}")
            with open(meta_path, "w", encoding="utf-8") as handle:
                json.dump(meta, handle, indent=1)
                handle.write("\n")
    finally:
        run(["git", "-C", "/repo", "worktree", "remove", "--force", worktree])
    return 0


if __name__ == "__main__":
    sys.exit(main())
