#!/venv/bin/python
"""
Re-evaluate every seeded change under /verif/seeded against the current checks:
  reeval_seeded.py [id ...]
Each patch is applied (three-way if its context moved) in a scratch worktree of /repo's HEAD (a pool of
eight under /tmp, removed at the end), the quick rules of all 15 properties run on it, and the table
`reported_now` of the change's meta.json is rewritten.  Nothing under /repo is touched.
"""
import json
import os
import sys

sys.path.insert(0, os.path.dirname(os.path.abspath(__file__)))
from _corpus import VERIF, evaluate, run  # noqa: E402

SEEDED = os.path.join(VERIF, "seeded")


def main():
    wanted = sys.argv[1:]
    idents = [i for i in sorted(os.listdir(SEEDED)) if os.path.exists(os.path.join(SEEDED, i, "meta.json")) and (not wanted or i in wanted)]
    head = run(["git", "-C", "/repo", "rev-parse", "--short", "HEAD"])[1].strip()
    results = evaluate([(i, os.path.join(SEEDED, i, "patch.diff")) for i in idents])
    tally = {"own": 0, "other": 0, "missed": 0, "stale": 0}
    for ident in idents:
        meta_path = os.path.join(SEEDED, ident, "meta.json")
        with open(meta_path, encoding="utf-8") as handle:
            meta = json.load(handle)
        verdicts = results[ident]
        if verdicts is None:
            meta["reported_now"] = {"tree": head, "applies": False}
            tally["stale"] += 1
            print(f"{ident}: patch does not apply to {head}")
        else:
            fired = {prop: text.split(" :: ")[0].split() for prop, (status, text) in verdicts.items() if status == "VIOLATION"}
            errors = {prop: [text[:200]] for prop, (status, text) in verdicts.items() if status == "ANALYSIS-ERROR"}
            meta["reported_now"] = {"tree": head, "applies": True, "violations": fired, "analysis_errors": errors}
            own = meta["breaks_property"] in fired
            tally["own" if own else "other" if fired else "missed"] += 1
            print(f"{ident}: {'own check' if own else 'OTHER' if fired else 'MISSED'} {fired} {errors or ''}")
        with open(meta_path, "w", encoding="utf-8") as handle:
            json.dump(meta, handle, indent=1)
            handle.write("\n")
    print(tally)
    return 0


if __name__ == "__main__":
    sys.exit(main())
