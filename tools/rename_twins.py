#!/venv/bin/python
"""
Robustness probe: apply a behaviour-preserving rewriting (rename every function-local variable,
rename private members, swap branches, early returns, returns through a local, inserted logging)
to the given files, analyse the renamed tree as an in-memory overlay, and report every check that
changes its verdict.  A rename is behaviour-preserving, so any new finding or ANALYSIS-ERROR is
a name-dependence of a rule.

  rename_twins.py [file ...]                 rename locals (default: the driver / manager / pragma / discovery files)
  rename_twins.py --<transform> [file ...]   locals | private | swap | early | rettemp | logging | all  (default: all files)
"""
import ast
import importlib
import os
import sys

ROOT = os.path.dirname(os.path.dirname(os.path.abspath(__file__)))
sys.path.insert(0, ROOT)

from sa.model import AnalysisError, Program, Source  # noqa: E402
from sa.report import Context  # noqa: E402

DEFAULT_FILES = [
    "pymarkdown/file_scan_helper.py",
    "pymarkdown/main.py",
    "pymarkdown/plugin_manager/plugin_manager.py",
    "pymarkdown/plugin_manager/plugin_scan_context.py",
    "pymarkdown/application_file_scanner.py",
    "pymarkdown/return_code_helper.py",
    "pymarkdown/extensions/pragma_token.py",
    "pymarkdown/general/tokenized_markdown.py",
    "pymarkdown/general/source_providers.py",
    "pymarkdown/extension_manager/extension_manager.py",
    "pymarkdown/application_configuration_helper.py",
    "pymarkdown/transform_markdown/transform_to_markdown.py",
    "pymarkdown/api.py",
    "pymarkdown/general/parser_logger.py",
    "pymarkdown/container_blocks/container_block_processor.py",
]
PROPS = ["C01", "C02", "C04", "C07", "C10", "C11", "C12", "C13", "C14", "C15", "C16", "C17", "C18", "C19", "C20"]


class Renamer(ast.NodeTransformer):
    def visit_FunctionDef(self, node: ast.FunctionDef) -> ast.AST:
        params = {a.arg for a in node.args.posonlyargs + node.args.args + node.args.kwonlyargs}
        if node.args.vararg:
            params.add(node.args.vararg.arg)
        if node.args.kwarg:
            params.add(node.args.kwarg.arg)
        locals_assigned = set()
        globals_declared = set()
        for sub in ast.walk(node):
            if isinstance(sub, (ast.Global, ast.Nonlocal)):
                globals_declared.update(sub.names)
            if isinstance(sub, ast.Name) and isinstance(sub.ctx, (ast.Store, ast.Del)):
                locals_assigned.add(sub.id)
            if isinstance(sub, ast.ExceptHandler) and sub.name:
                locals_assigned.add(sub.name)
        rename = {name: f"{name}_zq" for name in locals_assigned - params - globals_declared if name != "_"}

        class Inner(ast.NodeTransformer):
            def visit_Name(self, inner: ast.Name) -> ast.AST:
                if inner.id in rename:
                    return ast.copy_location(ast.Name(id=rename[inner.id], ctx=inner.ctx), inner)
                return inner

            def visit_ExceptHandler(self, inner: ast.ExceptHandler) -> ast.AST:
                self.generic_visit(inner)
                if inner.name in rename:
                    inner.name = rename[inner.name]
                return inner

            def visit_FunctionDef(self, inner: ast.FunctionDef) -> ast.AST:
                return inner if inner is not node else self.generic_visit(inner)

            def visit_Lambda(self, inner: ast.Lambda) -> ast.AST:
                return inner

        Inner().generic_visit(node)
        return node


def _private(name: str) -> bool:
    return name.startswith("__") and not name.endswith("__")


def private_renamed(text: str, suffix: str = "_zq") -> str:
    """Every private (double-underscore) method, field and class attribute of one file renamed."""
    tree = ast.parse(text)
    names = set()
    for node in ast.walk(tree):
        if isinstance(node, (ast.FunctionDef, ast.AsyncFunctionDef)) and _private(node.name):
            names.add(node.name)
        elif isinstance(node, ast.Attribute) and _private(node.attr):
            names.add(node.attr)
        elif isinstance(node, ast.ClassDef):
            for stmt in node.body:
                targets = stmt.targets if isinstance(stmt, ast.Assign) else [stmt.target] if isinstance(stmt, ast.AnnAssign) else []
                names.update(t.id for t in targets if isinstance(t, ast.Name) and _private(t.id))
    if not names:
        return text

    class Private(ast.NodeTransformer):
        def visit_FunctionDef(self, node: ast.FunctionDef) -> ast.AST:
            self.generic_visit(node)
            if node.name in names:
                node.name += suffix
            return node

        def visit_Name(self, node: ast.Name) -> ast.AST:
            if node.id in names:
                node.id += suffix
            return node

        def visit_Attribute(self, node: ast.Attribute) -> ast.AST:
            self.generic_visit(node)
            if node.attr in names:
                node.attr += suffix
            return node

    tree = Private().visit(tree)
    ast.fix_missing_locations(tree)
    return ast.unparse(tree)


def _negated(test: ast.expr) -> ast.expr:
    if isinstance(test, ast.UnaryOp) and isinstance(test.op, ast.Not):
        return test.operand
    return ast.UnaryOp(op=ast.Not(), operand=test)


class SwapBranches(ast.NodeTransformer):
    """``if c: A else: B`` -> ``if not c: B else: A`` (not for elif chains)"""

    def visit_If(self, node: ast.If) -> ast.AST:
        self.generic_visit(node)
        if node.orelse and not (len(node.orelse) == 1 and isinstance(node.orelse[0], ast.If)):
            node.test, node.body, node.orelse = _negated(node.test), node.orelse, node.body
        return node


class EarlyReturn(ast.NodeTransformer):
    """a procedure whose last statement is ``if c: body`` -> ``if not c: return`` + body"""

    def visit_FunctionDef(self, node: ast.FunctionDef) -> ast.AST:
        self.generic_visit(node)
        if node.body and isinstance(node.body[-1], ast.If) and not node.body[-1].orelse:
            last = node.body[-1]
            returns_value = any(isinstance(s, ast.Return) and s.value is not None for s in ast.walk(node))
            generator = any(isinstance(s, (ast.Yield, ast.YieldFrom)) for s in ast.walk(node))
            if not returns_value and not generator:
                node.body = node.body[:-1] + [ast.If(test=_negated(last.test), body=[ast.Return(value=None)], orelse=[])] + last.body
        return node


class ReturnThroughLocal(ast.NodeTransformer):
    """``return <expr>`` -> ``result_zq = <expr>; return result_zq``"""

    @staticmethod
    def _block(body):
        out = []
        for stmt in body:
            if isinstance(stmt, ast.Return) and stmt.value is not None and not isinstance(stmt.value, (ast.Name, ast.Constant)):
                out.append(ast.Assign(targets=[ast.Name(id="result_zq", ctx=ast.Store())], value=stmt.value, lineno=stmt.lineno))
                out.append(ast.Return(value=ast.Name(id="result_zq", ctx=ast.Load())))
            else:
                out.append(stmt)
        return out

    def generic_visit(self, node: ast.AST) -> ast.AST:
        super().generic_visit(node)
        for field in ("body", "orelse", "finalbody"):
            block = getattr(node, field, None)
            if isinstance(block, list) and block and isinstance(block[0], ast.stmt):
                setattr(node, field, self._block(block))
        if isinstance(node, ast.Try):
            for handler in node.handlers:
                handler.body = self._block(handler.body)
        return node


def logging_inserted(text: str) -> str:
    """a debug call as the first statement of every function of a module that has a logger"""
    import re

    match = re.search(r"^(POGGER|LOGGER) = ", text, re.M)
    if not match:
        return text
    logger = match.group(1)
    tree = ast.parse(text)

    class Insert(ast.NodeTransformer):
        def visit_FunctionDef(self, node: ast.FunctionDef) -> ast.AST:
            self.generic_visit(node)
            stmt = ast.parse(f'{logger}.debug("probe")').body[0]
            docstring = bool(node.body and isinstance(node.body[0], ast.Expr) and isinstance(node.body[0].value, ast.Constant) and isinstance(node.body[0].value.value, str))
            node.body.insert(1 if docstring else 0, stmt)
            return node

    tree = Insert().visit(tree)
    ast.fix_missing_locations(tree)
    return ast.unparse(tree)


class ConditionThroughLocal(ast.NodeTransformer):
    """``if <expr>:`` -> ``cond_zq_N = <expr>; if cond_zq_N:`` (plain if statements, not elif)"""

    def __init__(self) -> None:
        self.counter = 0

    def _block(self, body):
        out = []
        for stmt in body:
            if isinstance(stmt, ast.If) and not isinstance(stmt.test, (ast.Name, ast.Constant)):
                self.counter += 1
                name = f"cond_zq_{self.counter}"
                out.append(ast.Assign(targets=[ast.Name(id=name, ctx=ast.Store())], value=stmt.test, lineno=stmt.lineno))
                stmt.test = ast.Name(id=name, ctx=ast.Load())
            out.append(stmt)
        return out

    def generic_visit(self, node: ast.AST) -> ast.AST:
        super().generic_visit(node)
        for field in ("body", "orelse", "finalbody"):
            block = getattr(node, field, None)
            if isinstance(block, list) and block and isinstance(block[0], ast.stmt):
                if field == "orelse" and isinstance(node, ast.If) and len(block) == 1 and isinstance(block[0], ast.If):
                    continue  # elif: the test must stay where it is
                setattr(node, field, self._block(block))
        if isinstance(node, ast.Try):
            for handler in node.handlers:
                handler.body = self._block(handler.body)
        return node


class NestConjunctions(ast.NodeTransformer):
    """``if a and b: X`` (no else) -> ``if a: if b: X``"""

    def visit_If(self, node: ast.If) -> ast.AST:
        self.generic_visit(node)
        if not node.orelse and isinstance(node.test, ast.BoolOp) and isinstance(node.test.op, ast.And) and len(node.test.values) >= 2:
            first, rest = node.test.values[0], node.test.values[1:]
            inner_test = rest[0] if len(rest) == 1 else ast.BoolOp(op=ast.And(), values=rest)
            node.body = [ast.If(test=inner_test, body=node.body, orelse=[])]
            node.test = first
        return node


class LoopContinue(ast.NodeTransformer):
    """a loop body that is one ``if c: X`` -> ``if not c: continue`` + X"""

    def _loop(self, node):
        self.generic_visit(node)
        if len(node.body) == 1 and isinstance(node.body[0], ast.If) and not node.body[0].orelse:
            only = node.body[0]
            node.body = [ast.If(test=_negated(only.test), body=[ast.Continue()], orelse=[])] + only.body
        return node

    visit_For = _loop
    visit_While = _loop


def parameters_renamed_factory(source_texts):
    """Rename every parameter that is never passed by keyword anywhere in the package (so no call site
    changes meaning), except self / cls, *args / **kwargs, the parameters of plugin callbacks and of
    functions whose signature is part of a protocol (same name defined in several classes)."""
    keyword_names = set()
    definitions = {}
    for text in source_texts:
        tree = ast.parse(text)
        for node in ast.walk(tree):
            if isinstance(node, ast.Call):
                keyword_names.update(k.arg for k in node.keywords if k.arg)
            elif isinstance(node, (ast.FunctionDef, ast.AsyncFunctionDef)):
                definitions[node.name] = definitions.get(node.name, 0) + 1

    class Params(ast.NodeTransformer):
        def visit_FunctionDef(self, node: ast.FunctionDef) -> ast.AST:
            self.generic_visit(node)
            if definitions.get(node.name, 0) != 1 or not node.name.startswith("__") or node.name.endswith("__"):
                return node  # only private functions with a package-unique name
            arguments = node.args.posonlyargs + node.args.args + node.args.kwonlyargs
            rename = {a.arg: a.arg + "_zp" for a in arguments if a.arg not in ("self", "cls") and a.arg not in keyword_names}
            if not rename:
                return node
            nested_names = set()
            for sub in ast.walk(node):
                if sub is not node and isinstance(sub, (ast.FunctionDef, ast.AsyncFunctionDef, ast.Lambda)):
                    nested_args = sub.args.posonlyargs + sub.args.args + sub.args.kwonlyargs
                    nested_names.update(a.arg for a in nested_args)
            rename = {k: v for k, v in rename.items() if k not in nested_names}
            for argument in arguments:
                if argument.arg in rename:
                    argument.arg = rename[argument.arg]
            for sub in ast.walk(node):
                if isinstance(sub, ast.Name) and sub.id in rename:
                    sub.id = rename[sub.id]
            return node

    return _by_transformer(Params)


def all_parameters_renamed_factory(source_texts):
    """Rename every parameter of every function whose name is unique in the package (public ones too),
    together with the keywords of every call of a function of that name.  Functions whose name is defined
    more than once (plugin callbacks, overrides, __init__) keep their parameters."""
    definitions = {}
    trees = []
    for text in source_texts:
        tree = ast.parse(text)
        trees.append(tree)
        for node in ast.walk(tree):
            if isinstance(node, (ast.FunctionDef, ast.AsyncFunctionDef)):
                definitions[node.name] = definitions.get(node.name, 0) + 1
    unique = {name for name, count in definitions.items() if count == 1 and not (name.startswith("__") and name.endswith("__"))}
    parameters = {}
    for tree in trees:
        for node in ast.walk(tree):
            if isinstance(node, (ast.FunctionDef, ast.AsyncFunctionDef)) and node.name in unique:
                parameters[node.name] = {a.arg for a in node.args.posonlyargs + node.args.args + node.args.kwonlyargs} - {"self", "cls"}

    class Params(ast.NodeTransformer):
        def visit_FunctionDef(self, node: ast.FunctionDef) -> ast.AST:
            self.generic_visit(node)
            if node.name not in unique:
                return node
            arguments = node.args.posonlyargs + node.args.args + node.args.kwonlyargs
            rename = {a.arg: a.arg + "_zp" for a in arguments if a.arg not in ("self", "cls")}
            nested_names = set()
            for sub in ast.walk(node):
                if sub is not node and isinstance(sub, (ast.FunctionDef, ast.AsyncFunctionDef, ast.Lambda)):
                    nested_names.update(a.arg for a in sub.args.posonlyargs + sub.args.args + sub.args.kwonlyargs)
            if rename.keys() & nested_names:
                return node
            for argument in arguments:
                if argument.arg in rename:
                    argument.arg = rename[argument.arg]
            for sub in ast.walk(node):
                if isinstance(sub, ast.Name) and sub.id in rename:
                    sub.id = rename[sub.id]
            return node

        def visit_Call(self, node: ast.Call) -> ast.AST:
            self.generic_visit(node)
            name = node.func.attr if isinstance(node.func, ast.Attribute) else node.func.id if isinstance(node.func, ast.Name) else ""
            if name in parameters:
                for keyword in node.keywords:
                    if keyword.arg in parameters[name]:
                        keyword.arg = keyword.arg + "_zp"
            return node

    def apply(text: str) -> str:
        tree = ast.parse(text)
        # keep the functions this transformer refuses (nested parameter clash) consistent: collect them first
        tree = Params().visit(tree)
        ast.fix_missing_locations(tree)
        return ast.unparse(tree)

    return apply


def keyword_arguments_factory(source_texts):
    """Calls of private methods whose name is unique in the package (so the callee is known from the name alone) pass
    their positional arguments by keyword instead.  The receiver decides the offset: ``self.__m(a)`` / ``cls.__m(a)``
    / ``Class.__m(a)`` of a static or class method bind ``a`` to the first parameter after self / cls."""
    definitions = {}
    nodes = {}
    for text in source_texts:
        tree = ast.parse(text)
        for klass in ast.walk(tree):
            if not isinstance(klass, ast.ClassDef):
                continue
            for node in klass.body:
                if isinstance(node, (ast.FunctionDef, ast.AsyncFunctionDef)):
                    definitions[node.name] = definitions.get(node.name, 0) + 1
                    nodes[node.name] = node
        for node in ast.walk(tree):
            if isinstance(node, (ast.FunctionDef, ast.AsyncFunctionDef)) and node.name not in nodes:
                definitions[node.name] = definitions.get(node.name, 0) + 2  # not a method: left alone
    usable = {}
    for name, count in definitions.items():
        node = nodes.get(name)
        if count != 1 or node is None or not (name.startswith("__") and not name.endswith("__")):
            continue
        if node.args.vararg or node.args.kwarg or node.args.posonlyargs:
            continue
        static = any(isinstance(d, ast.Name) and d.id == "staticmethod" for d in node.decorator_list)
        params = [a.arg for a in node.args.args]
        usable[name] = params if static else params[1:]

    class Keywords(ast.NodeTransformer):
        def visit_Call(self, node: ast.Call) -> ast.AST:
            self.generic_visit(node)
            if not isinstance(node.func, ast.Attribute) or node.func.attr not in usable:
                return node
            if any(isinstance(a, ast.Starred) for a in node.args) or any(k.arg is None for k in node.keywords):
                return node
            params = usable[node.func.attr]
            if len(node.args) > len(params) or len(node.args) < 2:
                return node
            given = {k.arg for k in node.keywords}
            names = params[: len(node.args)]
            if given & set(names):
                return node
            node.keywords = [ast.keyword(arg=name, value=value) for name, value in zip(names, node.args)] + node.keywords
            node.args = []
            return node

    def apply(text: str) -> str:
        tree = Keywords().visit(ast.parse(text))
        ast.fix_missing_locations(tree)
        return ast.unparse(tree)

    return apply


def string_constants_hoisted(text: str) -> str:
    """every string literal that is a call argument, a comparand, a subscript key or an element of a list / tuple /
    set display and occurs at least twice in the module becomes a module-level constant ``_K_<n>``"""
    tree = ast.parse(text)
    skip = set()
    for node in ast.walk(tree):
        if isinstance(node, ast.JoinedStr):
            skip.update(id(sub) for sub in ast.walk(node))
        if isinstance(node, (ast.FunctionDef, ast.AsyncFunctionDef, ast.ClassDef, ast.Module)) and node.body and isinstance(node.body[0], ast.Expr):
            skip.add(id(node.body[0].value))
        if isinstance(node, (ast.FunctionDef, ast.AsyncFunctionDef)):
            for deco in node.decorator_list:
                skip.update(id(sub) for sub in ast.walk(deco))
            for arg in node.args.posonlyargs + node.args.args + node.args.kwonlyargs:
                if arg.annotation is not None:
                    skip.update(id(sub) for sub in ast.walk(arg.annotation))
            if node.returns is not None:
                skip.update(id(sub) for sub in ast.walk(node.returns))
        if isinstance(node, ast.AnnAssign):
            skip.update(id(sub) for sub in ast.walk(node.annotation))
        if isinstance(node, ast.Call) and isinstance(node.func, ast.Name) and node.func.id in ("cast", "TypeVar", "NewType"):
            skip.update(id(sub) for sub in ast.walk(node))
        if isinstance(node, ast.Assign) and any(isinstance(t, ast.Name) and t.id == "__all__" for t in node.targets):
            skip.update(id(sub) for sub in ast.walk(node))
        if isinstance(node, (ast.Match,)) if hasattr(ast, "Match") else False:
            skip.update(id(sub) for sub in ast.walk(node))
    candidates = []
    for node in ast.walk(tree):
        holders = []
        if isinstance(node, ast.Call):
            holders = list(node.args) + [k.value for k in node.keywords]
        elif isinstance(node, ast.Compare):
            holders = [node.left] + list(node.comparators)
        elif isinstance(node, (ast.List, ast.Tuple, ast.Set)) and isinstance(getattr(node, "ctx", ast.Load()), ast.Load):
            holders = list(node.elts)
        elif isinstance(node, ast.Subscript):
            holders = [node.slice]
        for holder in holders:
            if isinstance(holder, ast.Constant) and isinstance(holder.value, str) and id(holder) not in skip:
                candidates.append(holder)
    counts = {}
    for node in candidates:
        counts[node.value] = counts.get(node.value, 0) + 1
    names = {value: f"_K_{index}" for index, value in enumerate(sorted(v for v, c in counts.items() if c >= 2))}
    if not names:
        return ast.unparse(tree)
    chosen = {id(node) for node in candidates if node.value in names}

    class Hoist(ast.NodeTransformer):
        def visit_Constant(self, node: ast.Constant) -> ast.AST:
            if id(node) in chosen:
                return ast.copy_location(ast.Name(id=names[node.value], ctx=ast.Load()), node)
            return node

    tree = Hoist().visit(tree)
    position = 0
    for index, stmt in enumerate(tree.body):
        if isinstance(stmt, (ast.Import, ast.ImportFrom)) or (index == 0 and isinstance(stmt, ast.Expr)):
            position = index + 1
    tree.body[position:position] = [ast.Assign(targets=[ast.Name(id=name, ctx=ast.Store())], value=ast.Constant(value=value)) for value, name in sorted(names.items(), key=lambda item: item[1])]
    ast.fix_missing_locations(tree)
    return ast.unparse(tree)


def class_constants_hoisted(text: str) -> str:
    """inside every top-level class, a string literal used twice or more by its methods (as a call argument, a comparand,
    a subscript key or an element of a display) becomes a private class constant read as ``Class.__K_<n>``"""
    tree = ast.parse(text)
    for klass in [n for n in tree.body if isinstance(n, ast.ClassDef)]:
        base_text = " ".join(ast.unparse(b) for b in klass.bases)
        if klass.decorator_list or any(word in base_text for word in ("Enum", "NamedTuple", "TypedDict", "Protocol")):
            continue
        methods = [n for n in klass.body if isinstance(n, (ast.FunctionDef, ast.AsyncFunctionDef))]
        candidates = []
        for method in methods:
            skip = set()
            for deco in method.decorator_list:
                skip.update(id(sub) for sub in ast.walk(deco))
            for default in method.args.defaults + [d for d in method.args.kw_defaults if d is not None]:
                skip.update(id(sub) for sub in ast.walk(default))
            todo = list(method.body)
            while todo:
                node = todo.pop()
                if isinstance(node, (ast.ClassDef, ast.JoinedStr)):
                    continue
                if isinstance(node, (ast.FunctionDef, ast.AsyncFunctionDef, ast.Lambda)):
                    pass
                holders = []
                if isinstance(node, ast.Call) and not (isinstance(node.func, ast.Name) and node.func.id in ("cast", "TypeVar")):
                    holders = list(node.args) + [k.value for k in node.keywords]
                elif isinstance(node, ast.Compare):
                    holders = [node.left] + list(node.comparators)
                elif isinstance(node, (ast.List, ast.Tuple, ast.Set)) and isinstance(getattr(node, "ctx", ast.Load()), ast.Load):
                    holders = list(node.elts)
                elif isinstance(node, ast.Subscript):
                    holders = [node.slice]
                for holder in holders:
                    if isinstance(holder, ast.Constant) and isinstance(holder.value, str) and id(holder) not in skip:
                        candidates.append(holder)
                if isinstance(node, ast.AnnAssign):
                    todo.extend([node.value] if node.value is not None else [])
                    continue
                if isinstance(node, (ast.FunctionDef, ast.AsyncFunctionDef)):
                    todo.extend(node.body)
                    continue
                todo.extend(ast.iter_child_nodes(node))
        counts = {}
        for node in candidates:
            counts[node.value] = counts.get(node.value, 0) + 1
        names = {value: f"__K_{index}" for index, value in enumerate(sorted(v for v, c in counts.items() if c >= 2))}
        if not names:
            continue
        chosen = {id(node) for node in candidates if node.value in names}
        class_name = klass.name

        class Hoist(ast.NodeTransformer):
            def visit_Constant(self, node: ast.Constant) -> ast.AST:
                if id(node) in chosen:
                    return ast.copy_location(ast.Attribute(value=ast.Name(id=class_name, ctx=ast.Load()), attr=names[node.value], ctx=ast.Load()), node)
                return node

        for method in methods:
            Hoist().visit(method)
        position = 1 if klass.body and isinstance(klass.body[0], ast.Expr) and isinstance(klass.body[0].value, ast.Constant) else 0
        klass.body[position:position] = [ast.Assign(targets=[ast.Name(id=name, ctx=ast.Store())], value=ast.Constant(value=value)) for value, name in sorted(names.items(), key=lambda item: item[1])]
    ast.fix_missing_locations(tree)
    return ast.unparse(tree)


class IntroduceWalrus(ast.NodeTransformer):
    """``x = <call>`` directly followed by ``if x:`` / ``if not x:`` / ``if x is (not) None:`` -> ``if (x := <call>):`` ..."""

    @staticmethod
    def _tests_only(test: ast.expr, name: str) -> bool:
        if isinstance(test, ast.Name) and test.id == name:
            return True
        if isinstance(test, ast.UnaryOp) and isinstance(test.op, ast.Not) and isinstance(test.operand, ast.Name) and test.operand.id == name:
            return True
        if isinstance(test, ast.Compare) and len(test.ops) == 1 and isinstance(test.ops[0], (ast.Is, ast.IsNot)) and isinstance(test.left, ast.Name) and test.left.id == name \
                and isinstance(test.comparators[0], ast.Constant) and test.comparators[0].value is None:
            return True
        return False

    def _block(self, body):
        out = []
        index = 0
        while index < len(body):
            stmt = body[index]
            nxt = body[index + 1] if index + 1 < len(body) else None
            if isinstance(stmt, ast.Assign) and len(stmt.targets) == 1 and isinstance(stmt.targets[0], ast.Name) and isinstance(stmt.value, ast.Call) \
                    and isinstance(nxt, ast.If) and self._tests_only(nxt.test, stmt.targets[0].id):
                name = stmt.targets[0].id
                walrus = ast.NamedExpr(target=ast.Name(id=name, ctx=ast.Store()), value=stmt.value)

                class Swap(ast.NodeTransformer):
                    done = False

                    def visit_Name(self, node):
                        if node.id == name and isinstance(node.ctx, ast.Load) and not self.done:
                            self.done = True
                            return walrus
                        return node

                nxt.test = Swap().visit(nxt.test)
                out.append(nxt)
                index += 2
                continue
            out.append(stmt)
            index += 1
        return out

    def generic_visit(self, node):
        super().generic_visit(node)
        for field in ("body", "orelse", "finalbody"):
            block = getattr(node, field, None)
            if isinstance(block, list) and block and isinstance(block[0], ast.stmt) and not isinstance(node, ast.ClassDef) and not isinstance(node, ast.Module):
                setattr(node, field, self._block(block))
        return node


class ExpandTernary(ast.NodeTransformer):
    """``x = a if c else b`` -> ``if c: x = a`` / ``else: x = b``; ``return a if c else b`` -> two returns"""

    def _expand(self, node, build):
        value = node.value
        if isinstance(value, ast.IfExp):
            return ast.If(test=value.test, body=[build(value.body)], orelse=[build(value.orelse)])
        return node

    def visit_Assign(self, node: ast.Assign) -> ast.AST:
        if len(node.targets) == 1 and isinstance(node.targets[0], (ast.Name, ast.Attribute)):
            return self._expand(node, lambda v: ast.Assign(targets=node.targets, value=v))
        return node

    def visit_Return(self, node: ast.Return) -> ast.AST:
        return self._expand(node, lambda v: ast.Return(value=v)) if node.value is not None else node

    def visit_ClassDef(self, node: ast.ClassDef) -> ast.AST:
        node.body = [self.visit(stmt) if isinstance(stmt, (ast.FunctionDef, ast.AsyncFunctionDef)) else stmt for stmt in node.body]
        return node

    def visit_Module(self, node: ast.Module) -> ast.AST:
        node.body = [self.visit(stmt) if isinstance(stmt, (ast.FunctionDef, ast.AsyncFunctionDef, ast.ClassDef)) else stmt for stmt in node.body]
        return node


class ModernTyping(ast.NodeTransformer):
    """annotations only: ``Optional[X]`` -> ``X | None``, ``Union[A, B]`` -> ``A | B``, ``List/Dict/Set/Tuple`` ->
    ``list/dict/set/tuple`` (the modules get ``from __future__ import annotations``)"""

    BUILTIN = {"List": "list", "Dict": "dict", "Set": "set", "Tuple": "tuple", "FrozenSet": "frozenset", "Type": "type"}

    def _modern(self, node: ast.AST) -> ast.AST:
        outer = self

        class Inner(ast.NodeTransformer):
            def visit_Subscript(self, sub: ast.Subscript) -> ast.AST:
                self.generic_visit(sub)
                if isinstance(sub.value, ast.Name):
                    if sub.value.id == "Optional":
                        return ast.BinOp(left=sub.slice, op=ast.BitOr(), right=ast.Constant(value=None))
                    if sub.value.id == "Union" and isinstance(sub.slice, ast.Tuple) and sub.slice.elts:
                        joined = sub.slice.elts[0]
                        for element in sub.slice.elts[1:]:
                            joined = ast.BinOp(left=joined, op=ast.BitOr(), right=element)
                        return joined
                    if sub.value.id in outer.BUILTIN:
                        sub.value = ast.Name(id=outer.BUILTIN[sub.value.id], ctx=ast.Load())
                return sub

            def visit_Constant(self, sub: ast.Constant) -> ast.AST:
                return sub  # string annotations are left alone

        return Inner().visit(node)

    def visit_FunctionDef(self, node: ast.FunctionDef) -> ast.AST:
        self.generic_visit(node)
        for arg in node.args.posonlyargs + node.args.args + node.args.kwonlyargs + [a for a in (node.args.vararg, node.args.kwarg) if a]:
            if arg.annotation is not None:
                arg.annotation = self._modern(arg.annotation)
        if node.returns is not None:
            node.returns = self._modern(node.returns)
        return node

    def visit_AnnAssign(self, node: ast.AnnAssign) -> ast.AST:
        node.annotation = self._modern(node.annotation)
        return node

    def visit_Module(self, node: ast.Module) -> ast.AST:
        self.generic_visit(node)
        position = 1 if node.body and isinstance(node.body[0], ast.Expr) and isinstance(node.body[0].value, ast.Constant) else 0
        node.body.insert(position, ast.ImportFrom(module="__future__", names=[ast.alias(name="annotations")], level=0))
        return node


def _by_transformer(transformer_class):
    def apply(text: str) -> str:
        tree = transformer_class().visit(ast.parse(text))
        ast.fix_missing_locations(tree)
        return ast.unparse(tree)

    return apply


# name -> (description, text -> text); every one is behaviour preserving
TRANSFORMS = {
    "locals": ("every local variable of the package renamed and every file re-printed", _by_transformer(Renamer)),
    "private": ("every private method and field of the package renamed and every file re-printed", private_renamed),
    "swap": ("both branches of every if/else swapped under the negated test", _by_transformer(SwapBranches)),
    "early": ("every trailing if-block of a procedure turned into an early return", _by_transformer(EarlyReturn)),
    "rettemp": ("every returned expression first stored in a local", _by_transformer(ReturnThroughLocal)),
    "logging": ("a debug call inserted at the top of every function", logging_inserted),
    "condtemp": ("every if-test first stored in a local", _by_transformer(ConditionThroughLocal)),
    "nest": ("every 'if a and b' without else split into nested ifs", _by_transformer(NestConjunctions)),
    "continue": ("every loop body that is one if-block turned into 'if not c: continue'", _by_transformer(LoopContinue)),
    "ternary": ("every conditional expression that is assigned or returned expanded into if/else", _by_transformer(ExpandTernary)),
    "walrus": ("every 'x = call(); if x:' turned into 'if (x := call()):'", _by_transformer(IntroduceWalrus)),
    "typing": ("every annotation modernised: X | None, A | B, list[...], dict[...]", _by_transformer(ModernTyping)),
    "strconst": ("every string literal used twice or more in a module hoisted into a module-level constant", string_constants_hoisted),
    "clsconst": ("every string literal used twice or more by the methods of a class hoisted into a private class constant", class_constants_hoisted),
    "kwargs": ("calls of uniquely named private methods pass their positional arguments by keyword", None),
    "params": ("every parameter of a private function that is never passed by keyword renamed", None),
    "params2": ("every parameter of every uniquely named function renamed, keywords at its call sites included", None),
}


def transformed_overlay(source: Source, name: str, files=None):
    if name == "params":
        function = parameters_renamed_factory([source.read(rel, raw=True) for rel in source.python_files()])
        return {rel: function(source.read(rel, raw=True)) for rel in (files or source.python_files())}
    if name == "kwargs":
        function = keyword_arguments_factory([source.read(rel, raw=True) for rel in source.python_files()])
        return {rel: function(source.read(rel, raw=True)) for rel in (files or source.python_files())}
    if name == "params2":
        function = all_parameters_renamed_factory([source.read(rel, raw=True) for rel in source.python_files()])
        return {rel: function(source.read(rel, raw=True)) for rel in (files or source.python_files())}
    function = TRANSFORMS[name][1]
    return {rel: function(source.read(rel, raw=True)) for rel in (files or source.python_files())}


def findings_for(source: Source):
    out = {}
    try:
        prog = Program(source)
    except AnalysisError as exc:
        return {p: [f"ANALYSIS-ERROR {exc}"] for p in PROPS}
    for prop in PROPS:
        module = importlib.import_module(f"sa.rules.{prop.lower()}")
        ctx = Context(prog, "quick", prop)
        try:
            module.run(ctx)
            ctx.check_floors()
            out[prop] = sorted(f"{f.rule} {f.key}" for f in ctx.findings())
        except AnalysisError as exc:
            out[prop] = [f"ANALYSIS-ERROR {exc}"]
    return out


def main() -> int:
    args = sys.argv[1:]
    names = [a[2:] for a in args if a.startswith("--")] or ["locals"]
    files = [a for a in args if not a.startswith("--")]
    if names == ["all"]:
        names = list(TRANSFORMS)
    base_source = Source()
    base = findings_for(base_source)
    problems = 0
    for name in names:
        targets = files or (DEFAULT_FILES if name == "locals" and not args else base_source.python_files())
        twin_source = base_source.with_overlay(transformed_overlay(base_source, name, targets))
        twin = findings_for(twin_source)
        changed = 0
        for prop in PROPS:
            # finding keys contain statement text, which the rewriting changes: compare by rule id multiset
            before = sorted(item.split(" ")[0] for item in base[prop])
            after = sorted(item.split(" ")[0] for item in twin[prop])
            if before != after or any(item.startswith("ANALYSIS-ERROR") for item in twin[prop]):
                changed += 1
                print(f"{prop}: verdict changes under '{name}'")
                for item in twin[prop]:
                    if item not in base[prop]:
                        print("   ", item[:220])
        extra = f", {len(twin_source.renames)} private members re-identified" if name == "private" else ""
        print(f"{name}: {TRANSFORMS[name][0]} - {len(targets)} files, {changed} propert(ies) changed verdict{extra}")
        problems += changed
    return 1 if problems else 0


if __name__ == "__main__":
    sys.exit(main())
