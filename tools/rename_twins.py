#!/venv/bin/python
"""
Robustness probe: rename every function-local variable (not parameters, not attributes) in the
given files, analyse the renamed tree as an in-memory overlay, and report every check that
changes its verdict.  A rename is behaviour-preserving, so any new finding or ANALYSIS-ERROR is
a name-dependence of a rule.

  rename_twins.py [file ...]      (default: the driver / manager / pragma / discovery files)
  rename_twins.py --private [file ...]   rename every private method / field instead (default: all files)
"""
import ast
import importlib
import os
import sys

ROOT = os.path.dirname(os.path.dirname(os.path.abspath(__file__)))
sys.path.insert(0, ROOT)

from sa.model import AnalysisError, Program, Source  # noqa: E402
from sa.report import Context  # noqa: E402

DEFAULT_FILES = [
    "pymarkdown/file_scan_helper.py",
    "pymarkdown/main.py",
    "pymarkdown/plugin_manager/plugin_manager.py",
    "pymarkdown/plugin_manager/plugin_scan_context.py",
    "pymarkdown/application_file_scanner.py",
    "pymarkdown/return_code_helper.py",
    "pymarkdown/extensions/pragma_token.py",
    "pymarkdown/general/tokenized_markdown.py",
    "pymarkdown/general/source_providers.py",
    "pymarkdown/extension_manager/extension_manager.py",
    "pymarkdown/application_configuration_helper.py",
    "pymarkdown/transform_markdown/transform_to_markdown.py",
    "pymarkdown/api.py",
    "pymarkdown/general/parser_logger.py",
    "pymarkdown/container_blocks/container_block_processor.py",
]
PROPS = ["C01", "C02", "C04", "C07", "C10", "C11", "C12", "C13", "C14", "C15", "C16", "C17", "C18", "C19", "C20"]


class Renamer(ast.NodeTransformer):
    def visit_FunctionDef(self, node: ast.FunctionDef) -> ast.AST:
        params = {a.arg for a in node.args.posonlyargs + node.args.args + node.args.kwonlyargs}
        if node.args.vararg:
            params.add(node.args.vararg.arg)
        if node.args.kwarg:
            params.add(node.args.kwarg.arg)
        locals_assigned = set()
        globals_declared = set()
        for sub in ast.walk(node):
            if isinstance(sub, (ast.Global, ast.Nonlocal)):
                globals_declared.update(sub.names)
            if isinstance(sub, ast.Name) and isinstance(sub.ctx, (ast.Store, ast.Del)):
                locals_assigned.add(sub.id)
            if isinstance(sub, ast.ExceptHandler) and sub.name:
                locals_assigned.add(sub.name)
        rename = {name: f"{name}_zq" for name in locals_assigned - params - globals_declared if name != "_"}

        class Inner(ast.NodeTransformer):
            def visit_Name(self, inner: ast.Name) -> ast.AST:
                if inner.id in rename:
                    return ast.copy_location(ast.Name(id=rename[inner.id], ctx=inner.ctx), inner)
                return inner

            def visit_ExceptHandler(self, inner: ast.ExceptHandler) -> ast.AST:
                self.generic_visit(inner)
                if inner.name in rename:
                    inner.name = rename[inner.name]
                return inner

            def visit_FunctionDef(self, inner: ast.FunctionDef) -> ast.AST:
                return inner if inner is not node else self.generic_visit(inner)

            def visit_Lambda(self, inner: ast.Lambda) -> ast.AST:
                return inner

        Inner().generic_visit(node)
        return node


def _private(name: str) -> bool:
    return name.startswith("__") and not name.endswith("__")


def private_renamed(text: str, suffix: str = "_zq") -> str:
    """Every private (double-underscore) method, field and class attribute of one file renamed."""
    tree = ast.parse(text)
    names = set()
    for node in ast.walk(tree):
        if isinstance(node, (ast.FunctionDef, ast.AsyncFunctionDef)) and _private(node.name):
            names.add(node.name)
        elif isinstance(node, ast.Attribute) and _private(node.attr):
            names.add(node.attr)
        elif isinstance(node, ast.ClassDef):
            for stmt in node.body:
                targets = stmt.targets if isinstance(stmt, ast.Assign) else [stmt.target] if isinstance(stmt, ast.AnnAssign) else []
                names.update(t.id for t in targets if isinstance(t, ast.Name) and _private(t.id))
    if not names:
        return text

    class Private(ast.NodeTransformer):
        def visit_FunctionDef(self, node: ast.FunctionDef) -> ast.AST:
            self.generic_visit(node)
            if node.name in names:
                node.name += suffix
            return node

        def visit_Name(self, node: ast.Name) -> ast.AST:
            if node.id in names:
                node.id += suffix
            return node

        def visit_Attribute(self, node: ast.Attribute) -> ast.AST:
            self.generic_visit(node)
            if node.attr in names:
                node.attr += suffix
            return node

    tree = Private().visit(tree)
    ast.fix_missing_locations(tree)
    return ast.unparse(tree)


def findings_for(source: Source):
    out = {}
    try:
        prog = Program(source)
    except AnalysisError as exc:
        return {p: [f"ANALYSIS-ERROR {exc}"] for p in PROPS}
    for prop in PROPS:
        module = importlib.import_module(f"sa.rules.{prop.lower()}")
        ctx = Context(prog, "quick", prop)
        try:
            module.run(ctx)
            ctx.check_floors()
            out[prop] = sorted(f"{f.rule} {f.key}" for f in ctx.findings())
        except AnalysisError as exc:
            out[prop] = [f"ANALYSIS-ERROR {exc}"]
    return out


def main() -> int:
    files = sys.argv[1:] or DEFAULT_FILES
    base_source = Source()
    base = findings_for(base_source)
    overlay = {}
    private = "--private" in files
    files = [f for f in files if f != "--private"] or (base_source.python_files() if private else DEFAULT_FILES)
    for rel in files:
        if private:
            overlay[rel] = private_renamed(base_source.read(rel, raw=True))
            continue
        tree = ast.parse(base_source.read(rel))
        tree = Renamer().visit(tree)
        ast.fix_missing_locations(tree)
        overlay[rel] = ast.unparse(tree)
    renamed_source = base_source.with_overlay(overlay)
    renamed = findings_for(renamed_source)
    if private:
        print(f"{len(renamed_source.renames)} private members re-identified under their pinned names")
    problems = 0
    for prop in PROPS:
        # finding keys contain statement text, which changes with the rename: compare by rule id multiset
        before = sorted(item.split(" ")[0] for item in base[prop])
        after = sorted(item.split(" ")[0] for item in renamed[prop])
        if before != after or any(item.startswith("ANALYSIS-ERROR") for item in renamed[prop]):
            problems += 1
            print(f"{prop}: verdict changes under renaming")
            for item in renamed[prop]:
                if item not in base[prop]:
                    print("   ", item[:220])
    print(f"{len(files)} files renamed, {problems} propert(ies) changed verdict")
    return 1 if problems else 0


if __name__ == "__main__":
    sys.exit(main())
