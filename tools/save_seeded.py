#!/venv/bin/python
"""
Package confirmed seeded changes into /verif/seeded/<id>/ and regenerate /verif/seeded/README.md.

  save_seeded.py <PROP> <k> "<what it needs to manifest>"     # from /tmp/seed/<PROP>/_seed/{change,demo,notes,eval}<k>.*
  save_seeded.py --readme                                      # only rebuild the table
"""
import json
import os
import shutil
import sys

VERIF = os.path.dirname(os.path.dirname(os.path.abspath(__file__)))
SEEDED = os.path.join(VERIF, "seeded")


def save(prop: str, k: str, needs: str, round_name: str = "r1") -> None:
    src = f"/tmp/seed/{prop}/_seed" if round_name == "r1" else f"/tmp/seed/{round_name}/{prop}/_seed"
    with open(os.path.join(src, f"eval{k}.json"), encoding="utf-8") as handle:
        result = json.load(handle)
    ident = f"{prop}-{round_name}-{k}"
    dest = os.path.join(SEEDED, ident)
    os.makedirs(dest, exist_ok=True)
    shutil.copyfile(os.path.join(src, f"change{k}.diff"), os.path.join(dest, "patch.diff"))
    shutil.copyfile(os.path.join(src, f"demo{k}.py"), os.path.join(dest, "demo.py"))
    if os.path.exists(os.path.join(src, f"notes{k}.md")):
        shutil.copyfile(os.path.join(src, f"notes{k}.md"), os.path.join(dest, "notes.md"))
    fired = result.get("fired", {})
    caught_by = {p: sorted({r.strip().split(" ")[0] for r in v["reports"] if r.strip().startswith("R")}) for p, v in fired.items() if v["exit"] == 1}
    meta = {
        "id": ident,
        "breaks_property": prop,
        "needs_to_manifest": needs,
        "author": "fresh sub-agent given only the property text and its own scratch worktree",
        "confirmed_by_me": {
            "worktree_base": "the /repo HEAD at the time of evaluation (all fix: commits applied)",
            "commands": [
                "git apply patch.diff (in the scratch worktree)",
                "/venv/bin/python demo.py   (clean tree, then patched tree)",
                "/venv/bin/python -m pytest -q -p no:cacheprovider -n 16 -q   (patched tree)",
                "VERIF_REPO=<worktree> /venv/bin/python /verif/check.py <Cnn>   for all 15 claimed properties",
                "git checkout -- .",
            ],
            "demo_exit_clean_tree": result.get("demo_clean_exit"),
            "demo_exit_patched_tree": result.get("demo_patched_exit"),
            "suite_failures_with_patch": result.get("suite_failures"),
        },
        "caught_by": caught_by,
        "caught_by_own_property_check": prop in caught_by,
        "analysis_errors": {p: v["reports"][:1] for p, v in fired.items() if v["exit"] == 2},
    }
    with open(os.path.join(dest, "meta.json"), "w", encoding="utf-8") as handle:
        json.dump(meta, handle, indent=1)
        handle.write("\n")
    print(ident, "caught by", caught_by or "NOTHING")


def readme() -> None:
    rows = []
    for ident in sorted(os.listdir(SEEDED)):
        meta_path = os.path.join(SEEDED, ident, "meta.json")
        if not os.path.exists(meta_path):
            continue
        with open(meta_path, encoding="utf-8") as handle:
            meta = json.load(handle)
        now = meta.get("reported_now")
        if now is not None and not now.get("applies", True):
            caught = "(patch no longer applies: the defect it leaned on was repaired; kept as a self-validation mutant) " + "; ".join(f"{p}: {', '.join(r)}" for p, r in sorted(meta["caught_by"].items()))
        else:
            table = now["violations"] if now is not None else meta["caught_by"]
            caught = "; ".join(f"{p}: {', '.join(r)}" for p, r in sorted(table.items())) or "— (missed, see DESIGN §6)"
        rows.append(f"| `{ident}` | {meta['breaks_property']} | {meta['needs_to_manifest']} | {caught} |")
    text = [
        "# Seeded breaking changes",
        "",
        "Each directory holds `patch.diff` (apply with `git -C /repo apply`), `demo.py` (exits 0 on the unchanged tree, 1 with the",
        "patch), the author's `notes.md` and `meta.json` (what it breaks, what it needs to manifest, what was run to confirm it, which",
        "checks report it). All were written by fresh sub-agents that saw only the property text; none is ever committed to /repo.",
        "",
        "| id | property | needs, in order to manifest | reported by |",
        "|---|---|---|---|",
    ] + rows
    with open(os.path.join(SEEDED, "README.md"), "w", encoding="utf-8") as handle:
        handle.write("\n".join(text) + "\n")
    print(f"README.md: {len(rows)} seeded changes")


if __name__ == "__main__":
    os.makedirs(SEEDED, exist_ok=True)
    if sys.argv[1] == "--readme":
        readme()
    else:
        save(sys.argv[1], sys.argv[2], sys.argv[3], sys.argv[4] if len(sys.argv) > 4 else "r1")
        readme()
